"""C07 correspondence + conformance: NoisyQuadraticDistribution.ppf

1. *Correspondence* — `Opda.Noisy.ppf` at `Float` (the term the C07 theorems are about: the 30-step bisection
   `Opda.Noisy.bisect` of the model's own cdf on [a-6o, b+6o], the end-point table, the closed forms of the
   `noiseless` and `normal` regimes) against the implementation: agreement to 1e-8 (b-a+12o) (one final
   bracket), exact at q in {0, 1}.  A bisection decision `cdf(mid) < q` can legitimately flip between two
   libm's when |cdf(mid) - q| is inside the jitter allowance of the model's cdf (C06); the driver reports the
   first step k at which that is the case, and a difference of at most 2 (b-a+12o)/2^k is then a *near-tie*:
   skipped and counted, never failed.  Any other difference is handed to the Spec check below: if the
   implementation breaks the property there it is a violation, otherwise a broken correspondence.
   The failing-input search does not stop at the disagreeing instance: NoisyQuadratic is a location-scale family, so
   the same (c, s = o/(b-a), shape, q) is re-evaluated on its images b-a in {1e-2, 1e-4, 1e-7, 1e3}, a in
   {0, +-1e3 (b-a)}, and the first image at which a clause of the property fails becomes the replay.
2. *Conformance* (every run, on the implementation alone): |cdf(ppf(q)) - q| <= 1e-5 with the code's own
   cdf for q in (0,1); ppf non-decreasing on sorted q grids; ppf(0), ppf(1) = -inf, +inf when the noise is
   modelled, = a, b (to rounding of a+(b-a)) when it is not; point mass constant; output shape = input shape.
"""
import math
import warnings

import numpy as np

import common as C
from gen_emp import SharedArg
import corr_C06 as G

INF = float("inf")
INV_TOL = 1e-5
KEY_INT_PARAMS = "C07-integer-typed-parameters-intermediate-not-representable"
FAR_RATIOS = (1e4, 1e5, 1e6, 1e7)   # |a| / (b-a+12o); see far_member for why the axis stops at 1e7


def gen_qs(rng, n):
    qs = [0.0, 1.0, 1e-12, 1 - 1e-12, 0.5]
    while len(qs) < n:
        r = rng.random()
        if r < 0.5:
            qs.append(rng.random())
        elif r < 0.7:
            qs.append(rng.random() ** 4)
        elif r < 0.9:
            qs.append(1 - rng.random() ** 4)
        else:
            qs.append(rng.choice([5e-324, 1e-300, 1e-15, 1e-9, 1e-6, 1 - 1e-6, 1 - 1e-9, 1 - 2.0 ** -53, 0.25, 0.75]))
    return [float(q) for q in qs]


def ulp(x):
    return abs(float(np.spacing(x))) if math.isfinite(x) else 0.0


def inp_of(a, b, c, o, cv, q=None):
    d = G.inp_of(a, b, c, o, cv)
    if q is not None:
        d["q"] = C.fhex(q)
        d["readable"]["q"] = q
    return d


def inverse_ok(rep, d, a, b, c, o, cv, q, y, worst, why, container=None, dref=None, extra=None, fkey=None):
    """the Spec clause |cdf(ppf(q)) - q| <= 1e-5 with the code's own cdf; returns True if it holds.  `dref`: the instance of the same
    distribution built from float parameters - when `d` was built from integer-typed parameters the clause is evaluated with the
    cdf of both (a defect of integer-typed parameters common to cdf and ppf cannot cancel then)"""
    with np.errstate(all="ignore"):
        f = float(d.cdf(y))
        fr = float(dref.cdf(y)) if dref is not None else f
    err, err_r = abs(f - q), abs(fr - q)
    worst["inverse"] = max(worst["inverse"], err if fkey is None else 0.0, err_r if fkey is None else 0.0)
    rep.count(f"inverse_checks[{why}]")
    if not (err <= INV_TOL and err_r <= INV_TOL):
        which = "" if dref is None else (" (cdf of the instance itself)" if not err <= INV_TOL else " (cdf of the same distribution built from float parameters)")
        rep.violate(what=f"|cdf(ppf(q)) - q| = {max(err, err_r):.3g} > 1e-5" + which + (f" [levels given as {container}]" if container else "")
                         + (f" [parameters given as {extra['constructor']}]" if extra and extra.get("constructor") else ""),
                    input=dict(inp_of(a, b, c, o, cv, q), **({"q_container": container} if container else {}), **(extra or {})),
                    observed=dict(ppf=float(y), cdf_of_ppf=f, **({"cdf_of_ppf_float_parameters": fr} if dref is not None else {})), expected=q,
                    call="NoisyQuadraticDistribution.ppf", found_by=why, finding_key=fkey)
        return False
    return True


IMAGE_WIDTHS = (1e-2, 1e-4, 1e-7, 1e3)


def gen_dist_scaled(rng, switches):
    """C06's generator (all regimes and switch points), but half of the time moved to another member of the
    location-scale family: b-a log-uniform on [1e-7, 1e3], |a| <= 1e3 (b-a) (the same s = o/(b-a), c, shape)"""
    a, b, c, o, cv, tag = G.gen_dist(rng, switches)
    if rng.random() < 0.5:
        return a, b, c, o, cv, tag
    w = 10 ** rng.uniform(-7, 3)
    a2 = rng.choice([0.0, -w, 2.5 * w, w * 10 ** rng.uniform(0, 3), -w * 10 ** rng.uniform(0, 3)])
    if b > a:
        s = o / (b - a)
        return a2, a2 + w, c, s * w, cv, tag + "|w=1e%d" % round(math.log10(w))
    return a2, a2, c, (w if o > 0 else 0.0), cv, tag + "|w=1e%d" % round(math.log10(w))


def container_levels(rep, d, a, b, c, o, cv, inner, worst, why):
    """the same kind of query in other containers: float32 levels (exactly representable ones), the end points as Python ints;
    returns True if a clause fails"""
    reg = G.regime_of(a, b, o)
    if reg == "point":
        # the point mass: ppf is constantly a, whatever container the levels 0 and 1 arrive in (Python ints, bools, integer arrays)
        forms = [("pyint", 0), ("pyint", 1), ("pybool", True), ("pyint_list", [0, 1]), ("int64_array", np.arange(2)), ("uint8_array", np.array([1, 0], dtype=np.uint8)),
                 ("bool_array", np.array([False, True])), ("int32_matrix", np.array([[0, 1], [1, 0]], dtype=np.int32))]
        for lab, qv in forms:
            rep.count("point_mass:q_container=" + lab)
            try:
                with np.errstate(all="ignore"):
                    out = d.ppf(qv)
            except Exception as e:  # noqa: BLE001
                rep.violate(what=f"ppf of the point mass raised for levels given as {lab}", error=repr(e), input=inp_of(a, b, c, o, cv),
                            call="NoisyQuadraticDistribution.ppf", found_by=why)
                return True
            vals = np.atleast_1d(np.asarray(out, dtype=float))
            if np.shape(out) != np.shape(qv) or not all(float(v) == float(a) for v in vals.ravel()):
                rep.violate(what="ppf of the point mass a = b, o = 0 is not constantly a (levels 0 / 1 given in an integer or boolean container)",
                            input=dict(inp_of(a, b, c, o, cv), q=repr(qv), q_container=lab), observed=[float(v) for v in vals.ravel()], expected=float(a),
                            call=f"NoisyQuadraticDistribution({a!r}, {b!r}, {c}, {o!r}, {cv}).ppf({qv!r})", found_by=why)
                return True
        return False
    lo_want, hi_want = (-INF, INF) if reg in ("nothing", "normal") else (a, b)
    with np.errstate(all="ignore"):
        q32 = sorted({float(np.float32(q)) for q in inner if 0.0 < float(np.float32(q)) < 1.0})
    q32 = q32[:: max(1, len(q32) // 6)][:6]
    rep.count("q_container=float32")
    if q32:
        try:
            with np.errstate(all="ignore"):
                v32 = np.asarray(d.ppf(np.array(q32, dtype=np.float32)), dtype=float)
                ve = np.asarray(d.ppf([0, 1]), dtype=float)
        except Exception as e:  # noqa: BLE001
            rep.violate(what="ppf raised for levels given as a float32 array / a list of Python ints", error=repr(e), input=inp_of(a, b, c, o, cv),
                        call="NoisyQuadraticDistribution.ppf", found_by=why)
            return True
        if v32.shape != (len(q32),) or ve.shape != (2,):
            rep.violate(what="ppf output shape differs from input shape (float32 array / list of Python ints)", input=inp_of(a, b, c, o, cv),
                        call="NoisyQuadraticDistribution.ppf", found_by=why)
            return True
        out32 = np.asarray(d.ppf(np.array(q32, dtype=np.float32))).dtype == np.float32
        if out32:
            # float32 levels in, float32 quantiles out (numpy's convention): a float32 number cannot carry the property's accuracy
            # when the support is narrow relative to its location, so a result within 4 float32 spacings (at the magnitude of the bracket [a-6o, b+6o], whose
            # end points set the float32 grid the bisection moves on) of the float64 answer (which is judged in its own right) is as good as
            # float32 allows and is not held against the implementation
            with np.errstate(all="ignore"):
                v64 = np.asarray(d.ppf(np.array(q32, dtype=np.float64)), dtype=float)
        for j_, (q, y) in enumerate(zip(q32, v32)):
            if out32 and y == y and abs(y - v64[j_]) <= 4 * float(np.spacing(np.float32(max(abs(a - 6 * o), abs(b + 6 * o), 1e-30)))):
                with np.errstate(all="ignore"):
                    if not abs(float(d.cdf(float(y))) - q) <= INV_TOL:
                        rep.count("float32_quantile_limited_by_float32_resolution(within 4 float32 spacings of the float64 answer)")
                        continue
            if y != y or not inverse_ok(rep, d, a, b, c, o, cv, q, float(y), worst, why, container="float32"):
                return True
        for q, y, want in ((0.0, ve[0], lo_want), (1.0, ve[1], hi_want)):
            ok = (y == want) if abs(want) == INF else abs(y - want) <= 4 * max(ulp(a), ulp(b))
            if not ok:
                rep.violate(what="ppf(0)/ppf(1) given as Python ints is not -inf/+inf (noise modelled) resp. a/b (noise ignored)",
                            input=dict(inp_of(a, b, c, o, cv, q), q_container="pyint_list"), observed=float(y), expected=repr(want),
                            call="NoisyQuadraticDistribution.ppf", found_by=why)
                return True
    return False


def clauses_at(rep, NQ, a, b, c, o, cv, qs, worst, why, labels=None):
    """evaluate every clause of the property on the implementation at one parameter setting; report the first
    failing one as a violation and return True if one was found.  `labels` (for integral a, b, o): the containers the three
    parameters are handed to the constructor in (G.as_number); the clauses are those of the distribution with these numbers as
    parameters, the inverse clause is evaluated with the cdf of the instance itself and of the float-parameter instance"""
    reg = G.regime_of(a, b, o)
    extra, fkey, dref = {}, None, None
    if labels is not None:
        hz = G.param_hazard(a, b, o, labels, relevant=G.hazards_for(reg, "ppf"))
        fkey = KEY_INT_PARAMS if hz else None
        extra = dict(param_container="/".join(labels), constructor=G.param_call(a, b, c, o, cv, labels), **({"dtype_hazard": hz} if hz else {}))
        if hz:
            rep.count("param_container:an_intermediate_is_not_representable_in_the_parameters_dtype")
            if worst.setdefault("keyed", 0) >= 3:
                return False        # the recorded dtype finding is reported three times per run at most

    def viol(**kw):
        if fkey:
            worst["keyed"] = worst.get("keyed", 0) + 1
        kw["input"] = dict(kw.get("input") or {}, **extra)
        if extra:
            kw["what"] += f" [parameters given as {extra['constructor']}]"
        rep.violate(found_by=why, finding_key=fkey, **kw)
        return True

    try:
        if labels is not None:
            d = NQ(G.as_number(a, labels[0]), G.as_number(b, labels[1]), c, G.as_number(o, labels[2]), cv)
            dref = NQ(a, b, c, o, cv)
        else:
            d = NQ(a, b, c, o, cv)
        g = np.array(sorted(set(float(q) for q in qs) | {0.0, 1.0}))
        with np.errstate(all="ignore"):
            v = np.asarray(d.ppf(g), dtype=float)
    except Exception as e:
        return viol(what="ppf raised on q in [0, 1]", error=repr(e), input=inp_of(a, b, c, o, cv), call="NoisyQuadraticDistribution.ppf")
    if v.shape != g.shape:
        return viol(what="ppf output shape differs from input shape", input=inp_of(a, b, c, o, cv), call="NoisyQuadraticDistribution.ppf")
    if reg == "point":
        if not np.all(v == a):
            return viol(what="point mass: ppf(q) is not a", input=inp_of(a, b, c, o, cv), call="NoisyQuadraticDistribution.ppf")
        return False
    lo_want, hi_want = (-INF, INF) if reg in ("nothing", "normal") else (a, b)
    for q, y, want in ((0.0, v[0], lo_want), (1.0, v[-1], hi_want)):
        ok = (y == want) if abs(want) == INF else abs(y - want) <= 4 * max(ulp(a), ulp(b))
        if not ok:
            return viol(what="ppf(0)/ppf(1) is not -inf/+inf (noise modelled) resp. a/b (noise ignored)",
                        input=inp_of(a, b, c, o, cv, q), observed=float(y), expected=repr(want), call="NoisyQuadraticDistribution.ppf")
    for i in range(len(g) - 1):
        if not (v[i] <= v[i + 1]):
            return viol(what="ppf is not non-decreasing in q", input=dict(inp_of(a, b, c, o, cv), q_lo=C.fhex(g[i]), q_hi=C.fhex(g[i + 1])),
                        observed=[float(v[i]), float(v[i + 1])], call="NoisyQuadraticDistribution.ppf")
    for q, y in zip(g, v):
        if 0.0 < q < 1.0:
            if y != y:
                return viol(what="ppf(q) is nan", input=inp_of(a, b, c, o, cv, q), call="NoisyQuadraticDistribution.ppf")
            if not inverse_ok(rep, d, a, b, c, o, cv, float(q), float(y), worst, why, dref=dref, extra=extra, fkey=fkey):
                worst["keyed"] = worst.get("keyed", 0) + (1 if fkey else 0)
                return True
    # scalar queries take the same code path with a one-element mask: evaluate a few of them as well
    inner = [float(q) for q in g if 0.0 < q < 1.0]
    for q in inner[:: max(1, len(inner) // 5)][:5]:
        with np.errstate(all="ignore"):
            ys_ = d.ppf(q)
        if np.shape(ys_) != ():
            return viol(what="ppf of a scalar level is not a scalar", input=inp_of(a, b, c, o, cv, q), call="NoisyQuadraticDistribution.ppf")
        y = float(ys_)
        if y != y or not inverse_ok(rep, d, a, b, c, o, cv, q, y, worst, why, dref=dref, extra=extra, fkey=fkey):
            worst["keyed"] = worst.get("keyed", 0) + (1 if fkey else 0)
            return True
    if labels is None and container_levels(rep, d, a, b, c, o, cv, inner, worst, why):
        return True
    return False


def image_search(rep, NQ, a, b, c, o, cv, qs, worst):
    """location-scale images of a disagreeing instance: same c, s, shape, q; other widths and locations - near the origin
    (a in {0, +-1e3 (b-a)}) and far from it (|a| = 1e4 .. 1e7 times b-a+12o, both signs: a stopping rule or a tolerance that is
    relative to |y| instead of to the width shows there)"""
    if not b > a:
        return False
    s = o / (b - a)
    qs = list(qs) + np.linspace(0.02, 0.98, 13).tolist()
    for w in IMAGE_WIDTHS:
        for a2 in (0.0, 1e3 * w, -1e3 * w):
            rep.count("location_scale_images_searched")
            if clauses_at(rep, NQ, a2, a2 + w, c, s * w, cv, qs, worst, "location-scale image of a disagreement"):
                return True
    for w in (1.0,) + IMAGE_WIDTHS:
        for r in FAR_RATIOS:
            for sg in (1.0, -1.0):
                a2 = sg * r * w * (1 + 12 * s)
                if G.regime_of(a2, a2 + w, s * w) != G.regime_of(a, b, o):
                    continue
                rep.count("far_location_images_searched")
                if clauses_at(rep, NQ, a2, a2 + w, c, s * w, cv, qs, worst, "far-location image of a disagreement"):
                    return True
    return False


FAR_FIXED = [(1, 4e-3, 0.5, True), (1, 4e-3, 0.5, False), (2, 0.1, 1.0, False), (3, 0.3, 1e3, True), (5, 1e-2, 1e-3, False), (10, 2.0, 30.0, True),
             (1, 1e-5, 1.0, False), (4, 1e-4, 1e-2, True)]


def far_member(rng, switches, i):
    """"for every parameter setting" includes every location: members whose support lies 1e4, 1e5, 1e6, 1e7 times its own width
    (b-a+12o, the range the quantile is searched on) away from the origin, on either side, widths 1e-3 .. 1e3, every regime.
    The axis stops at 1e7: there the final bracket of the 30-step bisection, (b-a+12o)/2^30 = 9.3e-10 widths, is already below the
    spacing of the doubles at |a| (2.2e-16 * 1e7 = 2.2e-9 widths), i.e. no inversion can be sharper than the grid; the unchanged
    code meets the 1e-5 clause there with a margin of more than 2 (worst observed 4.7e-6 over 6000 members at 1e7 and 3e7,
    6.3e-6 at 1e8), beyond that the grid itself eats the tolerance for the tall densities (c = 1, o -> 1e-6 (b-a))."""
    if i < 2 * len(FAR_FIXED):
        # deterministic members (tall and flat densities in the bisecting regime), every ratio on both sides in every run
        c, s, w, cv = FAR_FIXED[i % len(FAR_FIXED)]
        ratio = FAR_RATIOS[(i + i // len(FAR_FIXED)) % len(FAR_RATIOS)]
        sg = 1.0 if (i // 4) % 2 == 0 else -1.0
        tag = "far_fixed"
    else:
        a, b, c, o, cv, tag = G.gen_dist(rng, switches)
        w = rng.choice([1e-3, 1.0, 1e3, 10 ** rng.uniform(-3, 3), 10 ** rng.uniform(-3, 3)])
        ratio = rng.choice(list(FAR_RATIOS) + [10 ** rng.uniform(3.5, 7)])
        sg = rng.choice([1.0, -1.0])
        if not b > a:            # a = b: the normal law N(a, o^2) (range 12 o) or the point mass
            a2 = sg * ratio * (12 * w if o > 0 else w)
            return a2, a2, c, (w if o > 0 else 0.0), cv, tag + "|far", ratio
        s = o / (b - a)
    a2 = sg * ratio * w * (1 + 12 * s)
    return a2, a2 + w, c, s * w, cv, tag + "|far", ratio


def param_container_part(rep, NQ, rng, n, worst, forced=None):
    """the PARAMETER-container axis: the constructor keeps integral parameters as numpy integers, and numpy takes the dtype of the
    bracket a-6o, b+6o and of every other intermediate from them.  The distribution with parameters (0, 1, 2, 1) is the distribution
    with parameters (0., 1., 2, 1.): every clause is evaluated on the instance built from Python ints / numpy integer scalars of
    several widths / some integer-typed and some float parameters."""
    for i in range(n):
        if forced is not None:
            a, b, c, o, cv, qs, label_sets = forced
        else:
            a, b, c, o, cv = G.gen_int_params(rng, G.PC_KINDS[i % len(G.PC_KINDS)])
            qs = gen_qs(rng, 10) + np.linspace(0.02, 0.98, 13).tolist()
            label_sets = G.param_label_sets(rng, a, b, o)
        reg = G.regime_of(a, b, o)
        rep.count("param_container:regime=" + reg)
        for labels in label_sets:
            rep.count("param_container=" + ("all " + labels[0] if len(set(labels)) == 1 else "mixed"))
            rep.case(("param_container", labels, a, b, c, o, cv), nontrivial=reg != "point")
            clauses_at(rep, NQ, a, b, c, o, cv, qs, worst, "param_container", labels=labels)


def tall_density_search(rep, NQ, worst):
    """failing-input search, second stage (once per run, after a correspondence disagreement that neither fails the
    property itself nor on its location-scale images): the members on which an error in ppf is amplified most by the
    cdf — c in {1, 2} with small modelled noise (density up to ~1/sqrt(s) resp. 1/s-free spikes at the end point) —
    at levels approaching both ends"""
    qs = [10.0 ** -k for k in range(1, 7)] + [1 - 10.0 ** -k for k in range(1, 7)] + np.linspace(0.02, 0.98, 25).tolist()
    for c in (1, 2, 3):
        for s in (1.5e-6, 3e-6, 1e-5, 3e-5, 1e-4, 3e-4, 1e-3, 1e-2):
            for cv in (False, True):
                rep.count("tall_density_members_searched")
                if clauses_at(rep, NQ, 0.0, 1.0, c, s, cv, qs, worst, "tall-density family search after a disagreement"):
                    return True
    return False


def run(seed, tier, replay=None):
    from opda.parametric import NoisyQuadraticDistribution as NQ
    warnings.simplefilter("ignore")
    rep = C.Report("C07", seed, tier)
    rng = C.rng_for("C07", seed)
    drv = C.Driver()
    ms, _knots = G.table_info()
    switches = sorted(set(G.SWITCHES) | set(ms))
    thorough = tier != "quick"
    n_dists = 300 if not thorough else 3000
    n_qs = 10
    n_mono = 80 if not thorough else 500
    n_far = 48 if not thorough else 480
    n_pc = 30 if not thorough else 300
    worst = dict(inverse=0.0, rel_diff=0.0)

    dists = []
    forced_pc = None
    if replay is not None:
        inp = (replay.get("violation") or replay).get("input") or {}
        try:
            a, b, o = C.unhex(inp["a"]), C.unhex(inp["b"]), C.unhex(inp["o"])
            dists.append((a, b, int(inp["c"]), o, bool(inp["convex"]), "replay", [C.unhex(inp["q"])] if "q" in inp else None))
            n_dists = n_mono = n_far = 0
            if inp.get("param_container"):
                forced_pc = (a, b, int(inp["c"]), o, bool(inp["convex"]), ([C.unhex(inp["q"])] if "q" in inp else []) + np.linspace(0.02, 0.98, 13).tolist(),
                             [tuple(inp["param_container"].split("/"))])
        except Exception:
            rep.notes.append("replay file carries no C07 input; running the seeded check")
    for _ in range(n_dists):
        a, b, c, o, cv, tag = gen_dist_scaled(rng, switches)
        dists.append((a, b, c, o, cv, tag, None))
    # far locations (a stream of their own, appended after the members above so that those are the same as before for a given seed)
    n_regular = len(dists)
    rng_f = C.rng_for("C07.far-locations", seed)
    for i in range(n_far):
        a, b, c, o, cv, tag, ratio = far_member(rng_f, switches, i)
        dists.append((a, b, c, o, cv, tag, gen_qs(rng_f, n_qs)))
        rep.count("location_ratio=1e%d" % round(math.log10(ratio)))

    reqs = []
    for di, (a, b, c, o, cv, tag, qs) in enumerate(dists):
        if qs is None:
            qs = gen_qs(rng, n_qs)
        dists[di] = (a, b, c, o, cv, tag, qs)
        reqs.append(("noisy.ppf", f"{G.params_line(a, b, c, o, cv)} {C.flist(qs)}"))
        rep.count("regime=" + G.regime_of(a, b, o))
        rep.count("s:" + tag.split("|")[0] + ("|far" if tag.endswith("|far") else ""))
        rep.count("width=1e%d" % (round(math.log10(b - a)) if b > a else 0) if b > a else "width=0")
    replies = drv.run(reqs)
    images_left = 6          # disagreeing distributions whose location-scale images are searched
    family_searched = False  # second-stage search (tall-density members), at most once per run

    n_ident = n_cmp = 0
    searched = set()
    for di, (a, b, c, o, cv, tag, qs) in enumerate(dists):
        r = replies[di]
        base = inp_of(a, b, c, o, cv)
        if r is None:
            rep.disagree(op="noisy.ppf", note="model rejected a valid input", input=base)
            continue
        reg = G.regime_of(a, b, o)
        try:
            d = NQ(a, b, c, o, cv)
            with np.errstate(all="ignore"):
                Qsh = SharedArg(qs)          # the caller's array of levels: bit-identical after the call
                iv = np.asarray(d.ppf(Qsh.obj), dtype=float)
                dmg_q = Qsh.changed_by("ppf(qs)")
                rep.count("shared_query_array:ppf(float64 qs)")
                if dmg_q:
                    rep.violate(what="ppf modified the caller's array of levels in place", input=dict(base, qs=[C.fhex(float(v)) for v in qs]), observed=dmg_q,
                                call="q = np.array(...); NoisyQuadraticDistribution.ppf(q); q")
                s0 = d.ppf(qs[0])
                m2 = d.ppf(np.array(qs[:4]).reshape(2, 2)) if len(qs) >= 4 else None
                e0 = d.ppf(np.array([]))
        except Exception as e:
            rep.violate(what="ppf raised on q in [0, 1]", error=repr(e), input=base, call="NoisyQuadraticDistribution.ppf")
            continue
        if di % 3 == 0 or reg == "point":      # (every point mass: it is rare in the stream and cheap)
            container_levels(rep, d, a, b, c, o, cv, [float(q) for q in qs if 0.0 < q < 1.0], worst, "all")
        # ---- shapes
        if di % 4 == 0:
            with np.errstate(all="ignore"):
                try:
                    fails = C.shape_probe(d.ppf, qs)
                except Exception as e:  # noqa: BLE001
                    fails = [("?", "raised " + repr(e))]
            for sh, msg in fails[:1]:
                rep.violate(what=f"ppf: {msg} (output shape must equal input shape)", input=dict(base, qs=[C.fhex(q) for q in qs[:6]]),
                            call="NoisyQuadraticDistribution.ppf")
        if iv.shape != (len(qs),) or np.shape(s0) != () or np.shape(e0) != (0,) or (m2 is not None and np.shape(m2) != (2, 2)):
            rep.violate(what="ppf output shape differs from input shape", input=base,
                        observed=[list(iv.shape), list(np.shape(s0)), list(np.shape(e0))], call="NoisyQuadraticDistribution.ppf")
            continue
        if m2 is not None and not np.array_equal(np.ravel(m2), iv[:4], equal_nan=True):
            # elementwise evaluation may differ in the last ulp between numpy's scalar and SIMD paths
            if not np.allclose(np.ravel(m2), iv[:4], rtol=1e-12, atol=0, equal_nan=True):
                rep.violate(what="ppf on a 2-D query is not the elementwise result", input=base, call="NoisyQuadraticDistribution.ppf")
        scale = (b - a) + 12 * o
        tol = 1e-8 * scale
        for j, q in enumerate(qs):
            y = float(iv[j])
            mv, mm, mk = C.unhex(r[3 * j]), C.unhex(r[3 * j + 1]), int(r[3 * j + 2])
            n_cmp += 1
            rep.case(("ppf", base["a"], base["b"], c, base["o"], cv, q),
                     sample=dict(op="ppf", a=a, b=b, c=c, o=o, convex=cv, q=q, model=mv, impl=y, first_tie_step=mk))
            # ---- end-point table / point mass (property clauses on the implementation)
            if reg == "point":
                if y != a:
                    rep.violate(what="point mass: ppf(q) is not a", input=inp_of(a, b, c, o, cv, q), observed=y, expected=a,
                                call="NoisyQuadraticDistribution.ppf")
            elif q in (0.0, 1.0):
                if reg in ("nothing", "normal"):
                    want = -INF if q == 0.0 else INF
                    if y != want:
                        rep.violate(what="ppf(0)/ppf(1) is not -inf/+inf although the noise is modelled",
                                    input=inp_of(a, b, c, o, cv, q), observed=y, expected=repr(want),
                                    call="NoisyQuadraticDistribution.ppf")
                else:
                    want = a if q == 0.0 else b
                    if not (abs(y - want) <= 4 * max(ulp(a), ulp(b))):
                        rep.violate(what="ppf(0)/ppf(1) is not a/b in the noiseless regime",
                                    input=inp_of(a, b, c, o, cv, q), observed=y, expected=want,
                                    call="NoisyQuadraticDistribution.ppf")
            elif y != y:
                rep.violate(what="ppf(q) is nan", input=inp_of(a, b, c, o, cv, q), call="NoisyQuadraticDistribution.ppf")
            # ---- inverse clause
            if reg != "point" and 0.0 < q < 1.0 and y == y:
                inverse_ok(rep, d, a, b, c, o, cv, q, y, worst, "all")
            elif reg == "point":
                rep.skip("inverse_clause_not_applicable_to_the_point_mass")
            # ---- correspondence
            if mv == y:
                n_ident += 1
                continue
            if q in (0.0, 1.0) and reg in ("nothing", "normal", "point") or abs(mv) == INF or abs(y) == INF or mv != mv or y != y:
                rep.disagree(op="noisy.ppf", input=inp_of(a, b, c, o, cv, q), model=mv, impl=y,
                             note="exact value expected (end point / point mass / non-finite)")
                continue
            diff = abs(mv - y)
            if diff <= tol:
                worst["rel_diff"] = max(worst["rel_diff"], diff / scale)
                continue
            if mk < 30 and diff <= 2.0 * scale / 2.0 ** mk:
                rep.skip("near_tie_bisection_decision_within_cdf_jitter")
                continue
            ok = inverse_ok(rep, d, a, b, c, o, cv, q, y, worst, "disagreement") if (reg != "point" and 0 < q < 1) else True
            if ok and images_left > 0 and di not in searched:
                searched.add(di)
                images_left -= 1
                if not image_search(rep, NQ, a, b, c, o, cv, qs, worst) and not family_searched:
                    family_searched = True
                    tall_density_search(rep, NQ, worst)
            if ok:
                rep.disagree(op="noisy.ppf", input=inp_of(a, b, c, o, cv, q), model=mv, impl=y, tol=tol, margin=mm,
                             first_tie_step=mk, note="model and implementation differ by more than 1e-8 (b-a+12o) with no "
                             "near-tie to explain it; the implementation still inverts its own cdf to 1e-5 there")

    # ---- the parameters in other containers
    if replay is None or forced_pc is not None:
        param_container_part(rep, NQ, C.rng_for("C07.parameter-containers", seed), 1 if forced_pc else n_pc, worst, forced_pc)

    # ---- monotonicity on sorted grids (implementation only)
    md = list(dists[:n_regular])
    rng.shuffle(md)
    for (a, b, c, o, cv, tag, _qs) in md[:n_mono] + dists[n_regular:][::3]:
        grid = {0.0, 1.0, 5e-324, 1e-300, 1e-12, 1 - 1e-12, 1 - 2.0 ** -53}
        grid.update(np.linspace(0, 1, 101).tolist())
        grid.update(rng.random() for _ in range(60))
        grid.update(rng.random() ** 6 for _ in range(25))
        grid.update(1 - rng.random() ** 6 for _ in range(25))
        u = rng.random()
        grid.update(min(1.0, max(0.0, u + k * 1e-9)) for k in range(-10, 11))
        g = np.array(sorted(grid))
        d = NQ(a, b, c, o, cv)
        with np.errstate(all="ignore"):
            v = np.asarray(d.ppf(g), dtype=float)
        rep.case(("mono", C.fhex(a), C.fhex(b), c, C.fhex(o), cv))
        rep.count("monotonicity_grids")
        bad = [i for i in range(len(g) - 1) if not (v[i] <= v[i + 1])]
        if bad:
            i = bad[0]
            rep.violate(what="ppf is not non-decreasing in q", input=dict(inp_of(a, b, c, o, cv), q_lo=C.fhex(g[i]), q_hi=C.fhex(g[i + 1])),
                        observed=[float(v[i]), float(v[i + 1])], call="NoisyQuadraticDistribution.ppf")

    return rep.result(
        rule="a case is (distribution, q). Distributions as in C06 (all regimes, both sides of every switch point, o=0, a=b), half of "
             "them moved within the location-scale family to b-a log-uniform on [1e-7, 1e3] with |a| <= 1e3 (b-a); far locations: 16 fixed members "
             "(c in {1,2,3,4,5,10}, tall and flat densities) and random members of every regime at |a| = 1e4, 1e5, 1e6, 1e7 (and 10^U(3.5,7)) times "
             "b-a+12o on both sides of the origin, b-a in [1e-3, 1e3] - the axis stops at 1e7 widths, where the spacing of the doubles at |a| "
             "(2.2e-9 widths) exceeds the final bracket of the bisection (9.3e-10 widths) and the unchanged code still meets 1e-5 with a margin "
             "of 2; the same ratios are images in the failing-input search after a disagreement. Parameter containers: integral a, b, o "
             "(supports (0,1) .. (0,1000), o = 0, o >= 1 in the series regime, o >= 10 (b-a), b-a > 1e6 with o = 1, a = b) handed to the "
             "constructor as Python ints, np.int64, two further integer widths that hold them, and mixed integer/float settings; every clause, "
             "the inverse clause with the cdf of the instance itself and of the float-parameter instance of the same distribution; where an "
             "intermediate (6o, a-6o, b+6o, o^2, 4(b-a)^2, ...) is not representable in the parameters' integer dtype the violation is the "
             "recorded finding " + KEY_INT_PARAMS + ". "
             "q: 0, 1, 1e-12, 1-1e-12, 0.5, uniform, U^4, 1-U^4, {5e-324,1e-300,1e-15,...,1-2^-53}; scalar, 1-D, 2-D and empty "
             "queries; monotonicity on sorted 250-point grids incl. 21 points 1e-9 apart. distinct = distinct by hash of the case.",
        extra=dict(driver_lines=drv.lines,
                   extra=dict(compared=n_cmp, bit_identical=n_ident, worst_inverse_error=worst["inverse"],
                              worst_rel_diff_within_tol=worst["rel_diff"],
                              note="|cdf(ppf q) - q| <= 1e-5 under IEEE rounding is measured here (theorem for even c over R; conditional theorem "
                                   "C07.bisect_accuracy gives it from monotonicity + a Lipschitz constant of the cdf)")))


if __name__ == "__main__":
    C.main(run)
