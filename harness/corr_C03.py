"""C03 correspondence: EmpiricalDistribution.pmf/cdf/ppf/mean/variance vs the exact Lean model."""
import warnings
from fractions import Fraction as Fr

import numpy as np

import common as C
import gen_emp as G

TOL = Fr(1, 10 ** 12)
INF = float("inf")


def dist_line(ys, ws, a, b):
    return f"{C.fhex(a)} {C.fhex(b)} {C.flist(ys)} {C.flist(ws) if ws is not None else '0'}"


def close(impl, model, tol=TOL):
    """impl: float; model: Fraction | ±inf | None(nan)"""
    impl = float(impl)
    if model is None:
        return impl != impl
    if isinstance(model, float):
        return impl == model
    if impl != impl or abs(impl) == INF:
        return False
    return abs(Fr(impl) - model) <= tol


def same_value(impl, model):
    impl = float(impl)
    if isinstance(model, float):
        return impl == model
    if model is None:
        return impl != impl
    return impl == impl and abs(impl) != INF and Fr(impl) == model


def gen_case(rng, max_n):
    n = rng.choice([1, 1, 2, 2, 3, 4, 5, 7, 10, 16, 25, max_n])
    ys = G.gen_values(rng, n)
    ws = G.gen_weights(rng, n)
    a, b = G.gen_bounds(rng, ys)
    return ys, ws, a, b


def run(seed, tier, replay=None):
    from opda.nonparametric import EmpiricalDistribution as ED
    rep = C.Report("C03", seed, tier)
    rng = C.rng_for("C03", seed)
    drv = C.Driver()
    n_dists = 300 if tier == "quick" else 5000
    cases = []
    if replay is not None:
        v = (replay.get("violation") or {}).get("input") or replay
        cases.append(([C.unhex(x) for x in v["ys"]], None if v.get("ws") is None else [C.unhex(x) for x in v["ws"]],
                      C.unhex(v["a"]), C.unhex(v["b"])))
        n_dists = 0
    for _ in range(n_dists):
        cases.append(gen_case(rng, 40))

    reqs, meta = [], []
    for ci, (ys, ws, a, b) in enumerate(cases):
        with warnings.catch_warnings():
            warnings.simplefilter("ignore")
            try:
                d = ED(ys, ws=ws, a=a, b=b)
            except Exception as e:  # valid by construction: an exception is a defect
                rep.violate(what="constructor raised on a valid input", error=repr(e),
                            input=dict(ys=[C.fhex(v) for v in ys], ws=None if ws is None else [C.fhex(v) for v in ws],
                                       a=C.fhex(a), b=C.fhex(b)))
                continue
        dl = dist_line(ys, ws, a, b)
        qs_y = G.gen_queries(rng, ys, a, b)
        reqs.append(("emp.levels", dl)); meta.append((ci, "levels", d, None))
        reqs.append(("emp.cdf", f"{dl} {C.flist(qs_y)}")); meta.append((ci, "cdf", d, qs_y))
        reqs.append(("emp.pmf", f"{dl} {C.flist(qs_y)}")); meta.append((ci, "pmf", d, qs_y))
        if all(abs(v) != INF for v in ys):
            reqs.append(("emp.moments", dl)); meta.append((ci, "moments", d, None))
        rep.count("n=%d" % (len(ys) if len(ys) < 10 else 10 * (len(ys) // 10)))
        rep.count("weights=" + ("none" if ws is None else "given"))
        rep.count("ties" if len(set(ys)) < len(ys) else "distinct")
        if any(abs(v) == INF for v in ys):
            rep.count("infinite_observation")
        if ws is not None and any(w == 0 for w in ws):
            rep.count("zero_weight")
        rep.count("a=" + ("-inf" if a == -INF else "min" if a == min(ys) else "below"))
        rep.count("b=" + ("inf" if b == INF else "max" if b == max(ys) else "above"))
    replies = drv.run(reqs)

    # second round: ppf queries need the model's cumulative levels
    reqs2, meta2 = [], []
    for (ci, kind, d, qs), r in zip(meta, replies):
        ys, ws, a, b = cases[ci]
        inp = dict(ys=[C.fhex(v) for v in ys], ws=None if ws is None else [C.fhex(v) for v in ws],
                   a=C.fhex(a), b=C.fhex(b))
        if r is None:
            rep.disagree(case=ci, op=kind, note="model rejected a valid input", input=inp)
            continue
        if kind == "levels":
            levels = [C.parse_ext(t.split(":")[1]) for t in r]
            qs_q = {0.0, 1.0}
            for L in levels:
                f = float(L)
                for cand in (f, np.nextafter(f, 2), np.nextafter(f, -1), f + 1e-11, f - 1e-11, f + 1e-3, f - 1e-3):
                    if 0.0 <= cand <= 1.0:
                        qs_q.add(float(cand))
            qs_q.update(rng.random() for _ in range(5))
            qs_q = sorted(qs_q)
            rng.shuffle(qs_q)
            qs_q = qs_q[:50]
            reqs2.append(("emp.ppf", f"{dist_line(ys, ws, a, b)} {C.flist(qs_q)}"))
            meta2.append((ci, d, qs_q, inp))
        elif kind in ("cdf", "pmf"):
            impl = getattr(d, kind)(np.array(qs))
            if np.shape(impl) != (len(qs),):
                rep.violate(what=f"{kind} output shape differs from query shape", input=inp, shape=list(np.shape(impl)))
                continue
            for y, iv, mv in zip(qs, impl, r):
                mv = C.parse_ext(mv)
                rep.case((kind, inp["ys"], inp["ws"], inp["a"], inp["b"], y),
                         sample=dict(op=kind, ys=ys, ws=ws, a=a, b=b, y=y, model=str(mv), impl=float(iv)))
                if not close(iv, mv):
                    # the exact model *is* the specification (theorems C03.cdf_eq_weight_le / pmf_eq_weight_eq)
                    rep.violate(what=f"{kind}(y) differs from the exact weighted step value by more than 1e-12",
                                input=dict(inp, y=C.fhex(y)), expected=str(mv), observed=float(iv), call=f"EmpiricalDistribution.{kind}")
            # scalar and 2-D shapes, empty
            s = getattr(d, kind)(qs[0])
            if np.shape(s) != ():
                rep.violate(what=f"{kind} of a scalar is not a scalar", input=inp)
            if len(qs) >= 4:
                m2 = getattr(d, kind)(np.array(qs[:4]).reshape(2, 2))
                if np.shape(m2) != (2, 2) or not np.array_equal(np.ravel(m2), impl[:4], equal_nan=True):
                    rep.violate(what=f"{kind} on a 2-D query is not the elementwise result", input=inp)
            e = getattr(d, kind)(np.array([]))
            if np.shape(e) != (0,):
                rep.violate(what=f"{kind} on an empty query does not return an empty array", input=inp)
            for sh, msg in C.shape_probe(getattr(d, kind), qs)[:1]:
                rep.violate(what=f"{kind}: {msg} (every output has the shape of the query)", input=dict(inp, qs=[C.fhex(q) for q in qs[:6]]),
                            shape=list(sh), call=f"EmpiricalDistribution.{kind}")
        elif kind == "moments":
            mean_m, var_m = C.parse_ext(r[0]), C.parse_ext(r[1])
            scale = max(1.0, max(abs(v) for v in ys))
            for name, iv, mv, sc in (("mean", d.mean, mean_m, scale), ("variance", d.variance, var_m, scale * scale)):
                rep.case((name, inp["ys"], inp["ws"]), sample=None)
                if sc > 1e150:
                    rep.skip("moments_overflow_range")
                    continue
                if not (float(iv) == float(iv)) or abs(Fr(float(iv)) - mv) > Fr(sc) * Fr(1, 10 ** 9):
                    rep.violate(what=f"{name} attribute differs from the weighted moment", input=inp,
                                expected=str(mv), observed=float(iv), call=f"EmpiricalDistribution.{name}")
    replies2 = drv.run(reqs2)
    for (ci, d, qs, inp), r in zip(meta2, replies2):
        ys, ws, a, b = cases[ci]
        if r is None:
            rep.disagree(case=ci, op="ppf", note="model rejected a valid input", input=inp)
            continue
        impl = d.ppf(np.array(qs))
        if np.shape(impl) != (len(qs),):
            rep.violate(what="ppf output shape differs from query shape", input=inp)
            continue
        for i, q in enumerate(qs):
            mv, margin = C.parse_ext(r[2 * i]), C.parse_ext(r[2 * i + 1])
            if margin <= TOL and q not in (0.0, 1.0):
                rep.skip("ppf_q_within_1e-12_of_a_level")
                continue
            if q == 1.0 and margin <= TOL:
                # ppf(1) is stated "to 1e-12": the float level may differ from 1 by rounding; compare via cdf
                if not close(d.cdf(impl[i]), Fr(1)):
                    rep.violate(what="cdf(ppf(1)) is not 1 to 1e-12", input=dict(inp, q=C.fhex(q)), observed=float(impl[i]))
                rep.case(("ppf1", inp["ys"], inp["ws"], inp["a"], inp["b"]))
                continue
            rep.case(("ppf", inp["ys"], inp["ws"], inp["a"], inp["b"], q),
                     sample=dict(op="ppf", ys=ys, ws=ws, a=a, b=b, q=q, model=str(mv), impl=float(impl[i])))
            if not same_value(impl[i], mv):
                rep.violate(what="ppf(q) is not inf{y in [a,b]: q <= cdf(y)}", input=dict(inp, q=C.fhex(q)),
                            expected=str(mv), observed=float(impl[i]), margin=str(margin), call="EmpiricalDistribution.ppf")
        s = d.ppf(qs[0])
        if np.shape(s) != ():
            rep.violate(what="ppf of a scalar is not a scalar", input=inp)
        if len(qs) >= 4:
            m2 = d.ppf(np.array(qs[:4]).reshape(2, 2))
            if np.shape(m2) != (2, 2) or not np.array_equal(np.ravel(m2), impl[:4], equal_nan=True):
                rep.violate(what="ppf on a 2-D query is not the elementwise result", input=inp)
        for sh, msg in C.shape_probe(d.ppf, qs)[:1]:
            rep.violate(what=f"ppf: {msg} (every output has the shape of the query)", input=dict(inp, qs=[C.fhex(q) for q in qs[:6]]),
                        shape=list(sh), call="EmpiricalDistribution.ppf")
    return rep.result(
        rule="structured samples (sizes 1-40; grid/tied/rounded/constant/huge/±inf values; None, integer-ratio, "
             "zero-containing, near-uniform weights; bounds at min/max/beyond/infinite); queries: every atom, both "
             "float neighbours, midpoints, ±inf (cdf/pmf) and every cumulative level ±{0,1ulp,1e-11,1e-3},0,1 (ppf). "
             "A case is (function, distribution, query); all are non-trivial; distinct = distinct by hash of that triple.",
        extra=dict(driver_lines=drv.lines))


if __name__ == "__main__":
    C.main(run)
