"""C03 correspondence: EmpiricalDistribution.pmf/cdf/ppf/mean/variance vs the exact Lean model."""
import warnings
from fractions import Fraction as Fr

import numpy as np

import common as C
import gen_emp as G

TOL = Fr(1, 10 ** 12)
INF = float("inf")


def dist_line(ys, ws, a, b):
    return f"{C.fhex(a)} {C.fhex(b)} {C.flist(ys)} {C.flist(ws) if ws is not None else '0'}"


def close(impl, model, tol=TOL):
    """impl: float; model: Fraction | ±inf | None(nan)"""
    impl = float(impl)
    if model is None:
        return impl != impl
    if isinstance(model, float):
        return impl == model
    if impl != impl or abs(impl) == INF:
        return False
    return abs(Fr(impl) - model) <= tol


def same_value(impl, model):
    impl = float(impl)
    if isinstance(model, float):
        return impl == model
    if model is None:
        return impl != impl
    return impl == impl and abs(impl) != INF and Fr(impl) == model


class StepSpec:
    """The definition itself in exact rationals (finite observations): cdf(y) = (sum of w_i over y_i <= y) / (sum of w_i), pmf(y) the
    same with y_i = y, ppf(q) = inf{y in [a, b] : q <= cdf(y)}.  Used where the sample is too large for the Lean driver (its model
    is quadratic in the sample size); on the smaller large-workload cases both are evaluated and must agree exactly."""

    def __init__(self, ys, ws, a, b):
        import bisect
        self._bisect = bisect
        w = [Fr(1)] * len(ys) if ws is None else [Fr(float(x)) for x in ws]
        tot = sum(w, Fr(0))
        acc = {}
        for y, x in zip(ys, w):
            acc[y] = acc.get(y, Fr(0)) + x
        self.a, self.b = a, b
        self.pts = sorted(acc)
        self.mass = [acc[y] / tot for y in self.pts]
        self.cum, c = [], Fr(0)
        for m in self.mass:
            c += m
            self.cum.append(c)

    def cdf(self, y):
        k = self._bisect.bisect_right(self.pts, y)
        return self.cum[k - 1] if k else Fr(0)

    def pmf(self, y):
        k = self._bisect.bisect_left(self.pts, y)
        return self.mass[k] if k < len(self.pts) and self.pts[k] == y else Fr(0)

    def ppf(self, q):
        """(value, distance from q to the nearest cumulative level) for a rational q in [0, 1]"""
        k = self._bisect.bisect_left(self.cum, q)
        margin = min([abs(q)] + [abs(q - self.cum[j]) for j in (k - 1, k) if 0 <= j < len(self.cum)])
        if q <= self.cdf(self.a):
            return self.a, margin
        return self.pts[k], margin

    def least_full_point(self):
        return max(self.a, next(y for y, c in zip(self.pts, self.cum) if c == 1))


def as_container(ys, label):
    """the same numbers in the container named by `label` (see common.number_containers); None = a list of Python floats"""
    if label is None:
        return ys
    if label == "pyint_list":
        return [int(v) for v in ys]
    if label == "float32":
        return np.array(ys, dtype=np.float32)
    return np.array([int(v) for v in ys], dtype=label)


def gen_case(rng, max_n):
    n = rng.choice([1, 1, 2, 2, 3, 4, 5, 7, 10, 16, 25, max_n])
    ys = G.gen_values(rng, n)
    ws = G.gen_weights(rng, n)
    a, b = G.gen_bounds(rng, ys)
    return ys, ws, a, b


LARGE_SHAPES = [(3000, 1000), (150, 9000), (40, 40000), (1500, 2000), (600, 6000), (1000, 1100), (3000, 300), (400, 400), (20, 100000)]


def large_workload(ED, rep, drv, seed, tier):
    """How much is asked at once is an input axis of its own: whatever code path `query size x support size` selects, the answer at
    each entry is the same step function.  Samples of 20 .. 3000 points x query arrays of 300 .. 100000 entries (1-D and 2-D), built
    by a recipe that is *executed* here and quoted in the replay.  Judged: every entry with level 0 is `a`, every entry with level 1 is
    a point of cdf 1 (to 1e-12) not above the least such point, every quantile lies in [a, b]; ~50 entries of each query (always one 0
    and one 1; exact cdf levels, their float neighbours, random levels/points) against the exact step distribution (`StepSpec`,
    cross-checked against the Lean model where the sample is small enough for it), and the same entries asked again as scalars."""
    rng = C.rng_for("C03/large-workload", seed)
    k = 5 if tier == "quick" else 40
    shapes = LARGE_SHAPES[:3] + [rng.choice(LARGE_SHAPES) for _ in range(k - 3)]
    for si, (n, m) in enumerate(shapes):
        gs = rng.randrange(2 ** 31)
        ys_expr = rng.choice([f"g.uniform(-5., 5., {n})", f"g.permutation({n}) * 0.25 - 3.", f"g.integers(0, {max(2, n // 2)}, {n}) * 0.5",
                              f"np.round(g.normal(0., 1e3, {n}), 1)"])
        ws_expr = rng.choice(["None", "None", f"g.integers(1, 10, {n}).astype(float)", f"g.integers(0, 3, {n}) + (np.arange({n}) == 0)",
                              f"1. + 3e-6 * g.uniform(-1., 1., {n})"])
        a_expr = rng.choice(["-np.inf", "ys.min()", "ys.min() - 1.", "ys.min() - 1.", "np.nextafter(ys.min(), -np.inf)"])
        if si < 3:      # the three fixed shapes are stratified over the position of the lower bound
            a_expr = ["ys.min() - 1.", "ys.min()", "-np.inf"][si]
        b_expr = rng.choice(["np.inf", "ys.max()", "ys.max() + 2.5"])
        shape = rng.choice([(m,), (m,), (m // 50, 50), (4, m // 100, 25)])
        nl = min(n, m // 8)
        recipe = "\n".join([
            "import numpy as np",
            "from opda.nonparametric import EmpiricalDistribution",
            f"g = np.random.default_rng({gs})",
            f"ys = {ys_expr}",
            f"ws = {ws_expr}",
            "ws = None if ws is None else ws / ws.sum()",
            f"a, b = {a_expr}, {b_expr}",
            "d = EmpiricalDistribution(ys, ws=ws, a=a, b=b)",
            f"at = np.sort(ys)[g.integers(0, {n}, {nl})]          # atoms",
            "lv = d.cdf(at)                                       # cdf levels, as the instance reports them",
            f"qs = np.concatenate([[0., 1.], lv, np.nextafter(lv, 2.), np.nextafter(lv, -1.), lv + 1e-11, lv - 1e-11, [0., 1.], "
            f"g.random({m} - 5 * {nl} - 4)])",
            "qs = np.clip(qs, 0., 1.)",
            "g.shuffle(qs)",
            f"qs = qs.reshape({shape!r})",
            f"pts = np.concatenate([at, np.nextafter(at, np.inf), np.nextafter(at, -np.inf), [a, b, -np.inf, np.inf], "
            f"g.uniform(ys.min() - 1., ys.max() + 1., {m} - 3 * {nl} - 4)])",
            "g.shuffle(pts)",
            f"pts = pts.reshape({shape!r})",
            "quantiles, cdfs, pmfs = d.ppf(qs), d.cdf(pts), d.pmf(pts)",
        ])
        env = {}
        inp = dict(recipe=recipe, sample_size=n, query_size=m, query_shape=list(shape))
        try:
            with warnings.catch_warnings():
                warnings.simplefilter("ignore")
                exec(recipe, env)
        except Exception as e:
            rep.violate(what="a valid large query raised", error=repr(e), input=inp, call="EmpiricalDistribution.ppf/cdf/pmf")
            continue
        d, qs, pts = env["d"], env["qs"], env["pts"]
        ys = [float(v) for v in env["ys"]]
        ws = None if env["ws"] is None else [float(v) for v in env["ws"]]
        a, b = float(env["a"]), float(env["b"])
        spec = StepSpec(ys, ws, a, b)
        rep.count("large:sample=%d,query=%d" % (n, m))
        rep.count("large:distinct_points=%d" % (100 * (len(spec.pts) // 100)))
        rep.count("large:query_dims=%d" % len(shape))
        rep.count("large:log2(distinct_points*query_size)=%d" % int(np.floor(np.log2(len(spec.pts) * m))))
        rep.count("large:weights=" + ("none" if ws is None else "given"))
        rep.count("large:a=" + ("-inf" if a == -INF else "min" if a == min(ys) else "below"))
        out = {"ppf": env["quantiles"], "cdf": env["cdfs"], "pmf": env["pmfs"]}
        bad_shape = [kk for kk, v in out.items() if np.shape(v) != tuple(shape)]
        if bad_shape:
            rep.violate(what=f"{bad_shape[0]} output shape differs from query shape", input=inp, shape=list(np.shape(out[bad_shape[0]])))
            continue
        qf, of = qs.ravel(), np.asarray(out["ppf"], dtype=float).ravel()
        # clauses that hold for every entry
        rep.case(("large-ppf0", recipe))
        z = np.flatnonzero(qf == 0.0)
        bad = [int(j) for j in z if of[j] != a]
        if bad:
            rep.violate(what="ppf(0) is not a (inside a large query)", input=dict(inp, index=bad[0], q=0.0, entries_with_level_0=len(z), wrong=len(bad)),
                        expected=a, observed=float(of[bad[0]]), call="EmpiricalDistribution.ppf(qs)[index]")
        rep.case(("large-ppf1", recipe))
        full = spec.least_full_point()
        for j in np.flatnonzero(qf == 1.0):
            y = float(of[j])
            if not (y == y and a <= y <= full and 1 - spec.cdf(y) <= TOL):
                rep.violate(what="ppf(1) is not the smallest point where the cdf reaches 1 (to 1e-12) (inside a large query)",
                            input=dict(inp, index=int(j), q=1.0), expected=full, observed=y, call="EmpiricalDistribution.ppf(qs)[index]")
                break
        rep.case(("large-range", recipe))
        outside = np.flatnonzero(~((of >= a) & (of <= b)))
        if len(outside):
            j = int(outside[0])
            rep.violate(what="ppf(q) lies outside [a, b] (inside a large query)", input=dict(inp, index=j, q=C.fhex(qf[j]), q_float=float(qf[j]), wrong=len(outside)),
                        expected=f"a value in [{a}, {b}]", observed=float(of[j]), call="EmpiricalDistribution.ppf(qs)[index]")
        # ~50 entries against the exact step distribution
        pick = sorted({int(z[0]), int(np.flatnonzero(qf == 1.0)[0])} | {rng.randrange(m) for _ in range(48)})
        small = len(ys) <= 200
        lean = {}
        if small:
            dl = dist_line(ys, ws, a, b)
            pj = [rng.randrange(m) for _ in range(50)]
            r = drv.run([("emp.ppf", f"{dl} {C.flist([qf[j] for j in pick])}"), ("emp.cdf", f"{dl} {C.flist([pts.ravel()[j] for j in pj])}"),
                         ("emp.pmf", f"{dl} {C.flist([pts.ravel()[j] for j in pj])}")])
            if any(x is None for x in r):
                rep.disagree(op="large", note="model rejected a valid input", input=inp)
                small = False
            else:
                lean = dict(ppf=r[0], cdf=r[1], pmf=r[2])
        else:
            pj = [rng.randrange(m) for _ in range(50)]
        for i, j in enumerate(pick):
            q = float(qf[j])
            mv, margin = spec.ppf(Fr(q))
            if small and (C.parse_ext(lean["ppf"][2 * i]), C.parse_ext(lean["ppf"][2 * i + 1])) != (mv if abs(mv) == INF else Fr(mv), margin):
                rep.disagree(op="ppf", note="the harness's exact step spec and the Lean model differ", input=dict(inp, q=C.fhex(q)),
                             spec=[str(mv), str(margin)], model=lean["ppf"][2 * i:2 * i + 2])
                continue
            if q == 1.0:
                continue    # judged above for every entry with level 1
            if margin <= TOL and q != 0.0:
                rep.skip("ppf_q_within_1e-12_of_a_level")
                continue
            rep.case(("large-ppf", recipe, j))
            with warnings.catch_warnings():
                warnings.simplefilter("ignore")
                sc = d.ppf(q)
            for how, iv in (("inside a large query", of[j]), ("asked as a scalar", sc)):
                if not same_value(iv, mv if abs(mv) == INF else Fr(mv)):
                    rep.violate(what=f"ppf(q) is not inf{{y in [a,b]: q <= cdf(y)}} ({how})", input=dict(inp, index=j, q=C.fhex(q), q_float=q),
                                expected=mv, observed=float(iv), margin=str(margin),
                                call="EmpiricalDistribution.ppf(qs)[index]" if how.startswith("inside") else "EmpiricalDistribution.ppf(q)")
            if np.shape(sc) != ():
                rep.violate(what="ppf of a scalar is not a scalar", input=dict(inp, q=C.fhex(q)))
        pf = pts.ravel()
        for kind in ("cdf", "pmf"):
            vf = np.asarray(out[kind], dtype=float).ravel()
            for i, j in enumerate(pj):
                y = float(pf[j])
                mv = getattr(spec, kind)(y)
                if small and C.parse_ext(lean[kind][i]) != mv:
                    rep.disagree(op=kind, note="the harness's exact step spec and the Lean model differ", input=dict(inp, y=C.fhex(y)),
                                 spec=str(mv), model=lean[kind][i])
                    continue
                rep.case(("large-" + kind, recipe, j))
                with warnings.catch_warnings():
                    warnings.simplefilter("ignore")
                    sc = getattr(d, kind)(y)
                for how, iv in (("inside a large query", vf[j]), ("asked as a scalar", sc)):
                    if not close(iv, mv):
                        rep.violate(what=f"{kind}(y) differs from the exact weighted step value by more than 1e-12 ({how})",
                                    input=dict(inp, index=j, y=C.fhex(y), y_float=y), expected=str(mv), observed=float(iv),
                                    call=f"EmpiricalDistribution.{kind}(pts)[index]" if how.startswith("inside") else f"EmpiricalDistribution.{kind}(y)")


def run(seed, tier, replay=None):
    from opda.nonparametric import EmpiricalDistribution as ED
    rep = C.Report("C03", seed, tier)
    rng = C.rng_for("C03", seed)
    drv = C.Driver()
    n_dists = 300 if tier == "quick" else 5000
    cases = []
    container = {}     # case index -> label of the container the sample is handed over in (default: list of Python floats)
    extra = {}         # case index -> fields added to the replay input (what the stratum varied)
    if replay is not None:
        v = (replay.get("violation") or {}).get("input") or replay
        cases.append(([C.unhex(x) for x in v["ys"]], None if v.get("ws") is None else [C.unhex(x) for x in v["ws"]],
                      C.unhex(v["a"]), C.unhex(v["b"])))
        if v.get("ys_container"):
            container[0] = v["ys_container"]
        n_dists = 0
    for _ in range(n_dists):
        cases.append(gen_case(rng, 40))
    # The strata below draw from generators of their own, so that the stream of the cases above does not move when one is added.
    if replay is None:
        # weights within 1e-15 .. 1e-4 (relative) of uniform, not uniform: cdf/pmf/ppf are about the weights that were given
        rng_w = C.rng_for("C03/near-uniform-weights", seed)
        for _ in range(60 if tier == "quick" else 1000):
            n = rng_w.choice([2, 2, 3, 4, 5, 7, 10, 16, 25, 40, 64])
            ys = G.gen_values(rng_w, n)
            ws, delta, pattern = G.gen_weights_near_uniform(rng_w, n)
            a, b = G.gen_bounds(rng_w, ys)
            if ws is None:
                rep.skip("near_uniform_weights_not_normalised_to_5e-11")
                continue
            extra[len(cases)] = dict(ws_relative_distance_from_uniform=delta, ws_pattern=pattern)
            rep.count("near_uniform_ws:delta=1e%d" % int(np.floor(np.log10(delta))))
            rep.count("near_uniform_ws:" + ("exactly_uniform_after_rounding" if len(set(ws)) == 1 else "not_uniform"))
            cases.append((ys, ws, a, b))
        # the sample in another container: Python ints, every integer dtype that holds the values, float32 (same numbers, same model)
        rng_c = C.rng_for("C03/sample-containers", seed)
        for _ in range(40 if tier == "quick" else 600):
            n = rng_c.choice([1, 2, 3, 4, 5, 7, 10, 16, 25, 40])
            ys, rlabel = G.gen_int_values(rng_c, n)
            ws = G.gen_weights(rng_c, n)
            a, b = G.gen_bounds(rng_c, ys)
            for label, _obj in C.number_containers(ys, rng_c, k=3):
                container[len(cases)] = label
                rep.count("sample_container=" + label)
                rep.count("sample_container:range=" + rlabel)
                rep.count("sample_container:" + ("ascending" if all(x <= y for x, y in zip(ys, ys[1:])) else "unsorted"))
                cases.append((ys, ws, a, b))

    # Axis "the caller's arrays" (own generator).  (i) About half of the float-list cases are built from float64 ndarrays that the CALLER
    # keeps and modifies in place afterwards (`gen_emp.caller_mutation`: sort / reverse / negate / refill with the next sample / permute or
    # zero weights ...): once straight after construction, before the first call of any method, and again before every later evaluation.
    # The model works on the lists: every method must describe the sample given at construction.  (ii) Query arrays are objects the caller
    # keeps too: ONE point array goes into cdf and pmf (and, as views of it, into the 2-D calls), one level array into ppf
    # (`gen_emp.SharedArg`); each must be bit-identical after every call.  (iii) Writing into an array a method returned does not change
    # what the next call returns.
    rng_m = C.rng_for("C03/caller-arrays", seed)
    rv = ((replay.get("violation") or {}).get("input") or replay) if replay is not None else {}
    owner = {}      # case index -> dict(ys=ndarray, ws=ndarray|None, done=[statements], todo=[statements of a replay])
    shared_pts = {}

    def caller_touches(ci):
        o = owner.get(ci)
        if o is None:
            return
        if o["todo"]:
            o["done"].append(G.apply_statement(o["todo"].pop(0), o["ys"], o["ws"]))
        elif replay is None:
            o["done"].append(G.caller_mutation(rng_m, o["ys"], o["ws"]))

    def inp_of(ci):
        ys, ws, a, b = cases[ci]
        inp = dict(ys=[C.fhex(v) for v in ys], ws=None if ws is None else [C.fhex(v) for v in ws], a=C.fhex(a), b=C.fhex(b))
        if ci in container:
            inp.update(ys_container=container[ci], ys_values=[int(v) if container[ci] != "float32" else v for v in ys])
        inp.update(extra.get(ci, {}))
        if ci in owner:
            inp.update(caller_modified_its_arrays_in_place=list(owner[ci]["done"]),
                       sequence="ys = np.array(ys); ws = None if ws is None else np.array(ws); d = EmpiricalDistribution(ys, ws=ws, a=a, b=b); "
                                "<the statements above, other calls in between>; then the call judged")
        return inp

    reqs, meta = [], []
    for ci, (ys, ws, a, b) in enumerate(cases):
        from_arrays = container.get(ci) is None and ((rng_m.random() < 0.5) if replay is None else bool(rv.get("caller_modified_its_arrays_in_place")))
        with warnings.catch_warnings():
            warnings.simplefilter("ignore")
            try:
                if from_arrays:
                    owner[ci] = dict(ys=np.array(ys, dtype=float), ws=None if ws is None else np.array(ws, dtype=float), done=[],
                                     todo=list(rv.get("caller_modified_its_arrays_in_place") or []))
                    d = ED(owner[ci]["ys"], ws=owner[ci]["ws"], a=a, b=b)
                    caller_touches(ci)        # before the first call of any method
                    rep.count("caller_arrays:built_from_ndarrays_then_modified_in_place")
                else:
                    d = ED(as_container(ys, container.get(ci)), ws=ws, a=a, b=b)
            except Exception as e:  # valid by construction: an exception is a defect
                rep.violate(what="constructor raised on a valid input", error=repr(e), input=inp_of(ci),
                            call="EmpiricalDistribution(ys, ws=ws, a=a, b=b)")
                continue
        dl = dist_line(ys, ws, a, b)
        qs_y = G.gen_queries(rng, ys, a, b)
        shared_pts[ci] = G.SharedArg(qs_y, "float64")
        reqs.append(("emp.levels", dl)); meta.append((ci, "levels", d, None))
        reqs.append(("emp.cdf", f"{dl} {C.flist(qs_y)}")); meta.append((ci, "cdf", d, qs_y))
        reqs.append(("emp.pmf", f"{dl} {C.flist(qs_y)}")); meta.append((ci, "pmf", d, qs_y))
        if all(abs(v) != INF for v in ys):
            reqs.append(("emp.moments", dl)); meta.append((ci, "moments", d, None))
        rep.count("n=%d" % (len(ys) if len(ys) < 10 else 10 * (len(ys) // 10)))
        rep.count("weights=" + ("none" if ws is None else "given"))
        rep.count("ties" if len(set(ys)) < len(ys) else "distinct")
        if any(abs(v) == INF for v in ys):
            rep.count("infinite_observation")
        if ws is not None and any(w == 0 for w in ws):
            rep.count("zero_weight")
        rep.count("a=" + ("-inf" if a == -INF else "min" if a == min(ys) else "below"))
        rep.count("b=" + ("inf" if b == INF else "max" if b == max(ys) else "above"))
    replies = drv.run(reqs)

    # second round: ppf queries need the model's cumulative levels
    reqs2, meta2 = [], []
    for (ci, kind, d, qs), r in zip(meta, replies):
        ys, ws, a, b = cases[ci]
        if kind != "levels":
            caller_touches(ci)        # the caller goes on using its arrays between any two evaluations
        inp = inp_of(ci)
        aliased = " (the caller modified the arrays it had passed to the constructor in place afterwards)" if ci in owner else ""
        if r is None:
            rep.disagree(case=ci, op=kind, note="model rejected a valid input", input=inp)
            continue
        if kind == "levels":
            levels = [C.parse_ext(t.split(":")[1]) for t in r]
            qs_q = {0.0, 1.0}
            for L in levels:
                f = float(L)
                for cand in (f, np.nextafter(f, 2), np.nextafter(f, -1), f + 1e-11, f - 1e-11, f + 1e-3, f - 1e-3):
                    if 0.0 <= cand <= 1.0:
                        qs_q.add(float(cand))
            qs_q.update(rng.random() for _ in range(5))
            qs_q = sorted(qs_q)
            rng.shuffle(qs_q)
            qs_q = qs_q[:50]
            reqs2.append(("emp.ppf", f"{dist_line(ys, ws, a, b)} {C.flist(qs_q)}"))
            meta2.append((ci, d, qs_q, inp))
        elif kind in ("cdf", "pmf"):
            S = shared_pts[ci]            # one float64 object per case for cdf and pmf
            impl = getattr(d, kind)(S.obj)
            dmg = S.changed_by(f"{kind}(points)")
            if dmg:
                rep.violate(what=f"{kind} modified the caller's array of points in place", input=dict(inp, points=[C.fhex(q) for q in qs]), observed=dmg,
                            call=f"EmpiricalDistribution.{kind}")
            if np.shape(impl) != (len(qs),):
                rep.violate(what=f"{kind} output shape differs from query shape", input=inp, shape=list(np.shape(impl)))
                continue
            for y, iv, mv in zip(qs, impl, r):
                mv = C.parse_ext(mv)
                rep.case((kind, inp.get("ys_container"), inp["ys"], inp["ws"], inp["a"], inp["b"], y),
                         sample=dict(op=kind, ys=ys, ws=ws, a=a, b=b, y=y, model=str(mv), impl=float(iv)))
                if not close(iv, mv):
                    # the exact model *is* the specification (theorems C03.cdf_eq_weight_le / pmf_eq_weight_eq)
                    rep.violate(what=f"{kind}(y) differs from the exact weighted step value by more than 1e-12" + aliased,
                                input=dict(inp, y=C.fhex(y)), expected=str(mv), observed=float(iv), call=f"EmpiricalDistribution.{kind}")
            # scalar and 2-D shapes, empty
            s = getattr(d, kind)(qs[0])
            if np.shape(s) != ():
                rep.violate(what=f"{kind} of a scalar is not a scalar", input=inp)
            if len(qs) >= 4:
                m2 = getattr(d, kind)(np.array(qs[:4]).reshape(2, 2))
                if np.shape(m2) != (2, 2) or not np.array_equal(np.ravel(m2), impl[:4], equal_nan=True):
                    rep.violate(what=f"{kind} on a 2-D query is not the elementwise result", input=inp)
                m2 = getattr(d, kind)(S.obj[:4].reshape(2, 2))       # a 2-D view of the caller's array
                if np.shape(m2) != (2, 2) or not np.array_equal(np.ravel(m2), impl[:4], equal_nan=True):
                    rep.violate(what=f"{kind} on a 2-D view of the caller's array is not the elementwise result", input=inp)
                dmg = S.changed_by(f"{kind}(points[:4].reshape(2, 2))")
                if dmg:
                    rep.violate(what=f"{kind} modified the caller's array of points in place", input=dict(inp, points=[C.fhex(q) for q in qs]), observed=dmg,
                                call=f"EmpiricalDistribution.{kind}")
            e = getattr(d, kind)(np.array([]))
            if np.shape(e) != (0,):
                rep.violate(what=f"{kind} on an empty query does not return an empty array", input=inp)
            for sh, msg in C.shape_probe(getattr(d, kind), qs)[:1]:
                rep.violate(what=f"{kind}: {msg} (every output has the shape of the query)", input=dict(inp, qs=[C.fhex(q) for q in qs[:6]]),
                            shape=list(sh), call=f"EmpiricalDistribution.{kind}")
            # the reverse direction: the caller writes into the array it got back; the next call must return the (already judged) values again
            if isinstance(impl, np.ndarray) and impl.flags.writeable and len(qs):
                keep = impl.copy()
                impl[...] = -7.0
                again = np.asarray(getattr(d, kind)(S.obj), dtype=float)
                rep.case((kind + "-after-write", inp["ys"], inp["ws"], inp["a"], inp["b"]))
                if again.shape != keep.shape or not np.array_equal(again, keep, equal_nan=True):
                    k = 0 if again.shape != keep.shape else int(np.flatnonzero(~((again == keep) | ((again != again) & (keep != keep))))[0])
                    if again.shape != keep.shape or not close(again[k], C.parse_ext(r[k])):
                        rep.violate(what=f"{kind}(y) differs from the exact weighted step value by more than 1e-12 after the caller wrote into the array "
                                         f"returned by the previous {kind} call", input=dict(inp, y=C.fhex(qs[k])), expected=str(C.parse_ext(r[k])),
                                    observed=float(again[k]) if again.shape == keep.shape else list(again.shape), call=f"EmpiricalDistribution.{kind}")
        elif kind == "moments":
            mean_m, var_m = C.parse_ext(r[0]), C.parse_ext(r[1])
            scale = max(1.0, max(abs(v) for v in ys))
            for name, iv, mv, sc in (("mean", d.mean, mean_m, scale), ("variance", d.variance, var_m, scale * scale)):
                rep.case((name, inp.get("ys_container"), inp["ys"], inp["ws"]), sample=None)
                if sc > 1e150:
                    rep.skip("moments_overflow_range")
                    continue
                rel = Fr(1, 10 ** 9)
                if getattr(iv, "dtype", None) == np.float32:
                    # numpy's float32-in/float32-out convention (a float32 sample, ws=None): the returned type cannot carry 1e-9
                    # (DESIGN "where the container axis stops"); judged at float32 resolution (n roundings of 2^-24 each) instead
                    rel = Fr(len(ys) + 4, 2 ** 23)
                    rep.count("float32_moment_limited_by_float32_resolution")
                if not (float(iv) == float(iv)) or abs(Fr(float(iv)) - mv) > Fr(sc) * rel:
                    rep.violate(what=f"{name} attribute differs from the weighted moment" + aliased, input=inp,
                                expected=str(mv), observed=float(iv), call=f"EmpiricalDistribution.{name}")
    replies2 = drv.run(reqs2)
    for (ci, d, qs, inp), r in zip(meta2, replies2):
        ys, ws, a, b = cases[ci]
        if r is None:
            rep.disagree(case=ci, op="ppf", note="model rejected a valid input", input=inp)
            continue
        caller_touches(ci)
        if ci in owner:
            inp = inp_of(ci)
        aliased = " (the caller modified the arrays it had passed to the constructor in place afterwards)" if ci in owner else ""
        S = G.SharedArg(qs, "float64")        # one level array for the calls below
        impl = d.ppf(S.obj)
        dmg = S.changed_by("ppf(qs)")
        if dmg:
            rep.violate(what="ppf modified the caller's array of levels in place", input=dict(inp, qs=[C.fhex(q) for q in qs]), observed=dmg,
                        call="EmpiricalDistribution.ppf")
        if np.shape(impl) != (len(qs),):
            rep.violate(what="ppf output shape differs from query shape", input=inp)
            continue
        for i, q in enumerate(qs):
            mv, margin = C.parse_ext(r[2 * i]), C.parse_ext(r[2 * i + 1])
            if margin <= TOL and q not in (0.0, 1.0):
                rep.skip("ppf_q_within_1e-12_of_a_level")
                continue
            if q == 1.0 and margin <= TOL:
                # ppf(1) is stated "to 1e-12": the float level may differ from 1 by rounding; compare via cdf
                if not close(d.cdf(impl[i]), Fr(1)):
                    rep.violate(what="cdf(ppf(1)) is not 1 to 1e-12", input=dict(inp, q=C.fhex(q)), observed=float(impl[i]))
                rep.case(("ppf1", inp.get("ys_container"), inp["ys"], inp["ws"], inp["a"], inp["b"]))
                continue
            rep.case(("ppf", inp.get("ys_container"), inp["ys"], inp["ws"], inp["a"], inp["b"], q),
                     sample=dict(op="ppf", ys=ys, ws=ws, a=a, b=b, q=q, model=str(mv), impl=float(impl[i])))
            if not same_value(impl[i], mv):
                rep.violate(what="ppf(q) is not inf{y in [a,b]: q <= cdf(y)}" + aliased, input=dict(inp, q=C.fhex(q)),
                            expected=str(mv), observed=float(impl[i]), margin=str(margin), call="EmpiricalDistribution.ppf")
        s = d.ppf(qs[0])
        if np.shape(s) != ():
            rep.violate(what="ppf of a scalar is not a scalar", input=inp)
        if len(qs) >= 4:
            m2 = d.ppf(np.array(qs[:4]).reshape(2, 2))
            if np.shape(m2) != (2, 2) or not np.array_equal(np.ravel(m2), impl[:4], equal_nan=True):
                rep.violate(what="ppf on a 2-D query is not the elementwise result", input=inp)
            m2 = d.ppf(S.obj[:4].reshape(2, 2))                      # a 2-D view of the caller's array
            if np.shape(m2) != (2, 2) or not np.array_equal(np.ravel(m2), impl[:4], equal_nan=True):
                rep.violate(what="ppf on a 2-D view of the caller's array is not the elementwise result", input=inp)
        keep = np.array(impl, dtype=float)
        if isinstance(impl, np.ndarray) and impl.flags.writeable:
            impl[...] = -7.0                                         # the caller writes into what it got back
        again = np.asarray(d.ppf(S.obj), dtype=float)
        dmg = S.changed_by("ppf(qs[:4].reshape(2, 2)); ppf(qs)")
        if dmg:
            rep.violate(what="ppf modified the caller's array of levels in place", input=dict(inp, qs=[C.fhex(q) for q in qs]), observed=dmg,
                        call="EmpiricalDistribution.ppf")
        rep.case(("ppf-after-write", inp["ys"], inp["ws"], inp["a"], inp["b"]))
        if again.shape != keep.shape or not np.array_equal(again, keep, equal_nan=True):
            # `keep` was judged against the exact model above, entry by entry (outside the property's tie zone)
            k = 0 if again.shape != keep.shape else int(np.flatnonzero(~((again == keep) | ((again != again) & (keep != keep))))[0])
            mv_k, margin_k = C.parse_ext(r[2 * k]), C.parse_ext(r[2 * k + 1])
            if again.shape != keep.shape or (margin_k > TOL and not same_value(again[k], mv_k)):
                rep.violate(what="ppf(q) is not inf{y in [a,b]: q <= cdf(y)} when asked again with the same array of levels, after the caller wrote into the "
                                 "array returned by the first call", input=dict(inp, q=C.fhex(qs[k])), expected=str(mv_k),
                            observed=float(again[k]) if again.shape == keep.shape else list(again.shape), call="EmpiricalDistribution.ppf")
        for sh, msg in C.shape_probe(d.ppf, qs)[:1]:
            rep.violate(what=f"ppf: {msg} (every output has the shape of the query)", input=dict(inp, qs=[C.fhex(q) for q in qs[:6]]),
                        shape=list(sh), call="EmpiricalDistribution.ppf")
    if replay is None:
        large_workload(ED, rep, drv, seed, tier)
    return rep.result(
        rule="structured samples (sizes 1-40; grid/tied/rounded/constant/huge/±inf values; None, integer-ratio, "
             "zero-containing, near-uniform weights; bounds at min/max/beyond/infinite); queries: every atom, both "
             "float neighbours, midpoints, ±inf (cdf/pmf) and every cumulative level ±{0,1ulp,1e-11,1e-3},0,1 (ppf). "
             "A case is (function, distribution, query); all are non-trivial; distinct = distinct by hash of that triple. "
             "Further strata (own generators): weights 1/n*(1 +- delta), delta log-uniform in 1e-15..1e-4, renormalised; integer-valued "
             "unsorted samples handed over as Python ints / every integer dtype that holds them / float32 (same exact model; float32-out "
             "moments judged at float32 resolution); large workloads (20-3000 points x 300-100000 queries, 1-D to 3-D, lower bound "
             "stratified): ppf(0)=a, ppf(1)=least full point, range [a,b] for every entry, ~50 entries per query and their scalar "
             "re-evaluation against the exact step distribution (exact rationals; cross-checked with the Lean model for samples <= 200). "
             "The caller's arrays (own generator): about half of the float-list cases are built from float64 ndarrays that the caller modifies in "
             "place (sort/reverse/negate/rescale/refill/one entry; permute/zero/renormalise weights) after construction and before every "
             "evaluation -- judged by the exact model of the sample given at construction; one point array per case goes into cdf and pmf (and "
             "2-D views of it), one level array into the ppf calls, bit-identical afterwards; writing into a returned array does not change the "
             "next call's values.",
        extra=dict(driver_lines=drv.lines))


if __name__ == "__main__":
    C.main(run)
