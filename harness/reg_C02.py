REG = dict(
    timeout=dict(quick=900, thorough=3000),
    trusted_base=[
        "level tables are parameters of the theorems; the harness computes them from the documented construction with the "
        "public helpers (utils.dkw_epsilon, scipy.stats.kstwo.ppf, beta interval/coverage functions, np.quantile, the "
        "generator's uniforms replayed from a cloned state) and the code's bands must equal the model built on them",
        "monotonicity of kstwo.ppf / np.quantile / nestedness of scipy's beta intervals in the confidence: not proved; the "
        "widening clause is compared on the code's outputs (same seed) and proved given level-wise ordered tables",
        "IEEE-754 rounding of np.diff / cumsum: compared at 1e-12 (C03's tolerance)",
    ],
    assumptions=["finite observations (infinite bounds allowed)", "quantile levels within 1e-12 of a band level excluded"],
)
TEXT = dict(
    level="Universal Lean theorems on the band model (any sample with ties, any bounds, any level table, every t): band cdf = level "
          "indexed by the count of extended sample points <= t; no mass below a or above b for every table; the lower band is 0 below the "
          "smallest observation and the upper band is 1 from the largest observation on (the dkw/ks tables meet the two hypotheses L_0 = 0, "
          "U_n = 1 for every eps >= 0); eps <= eps' nests the dkw/ks bands at every t; pt is the band with table i/n and lo <= pt <= hi; level-wise "
          "ordered tables give pointwise ordered cdfs (bracket, widening); invariance under permutations and under strictly "
          "increasing maps of sample, bounds and query; F <= G implies Q_G <= Q_F for arbitrary distribution functions (tuning-curve "
          "band inversion, any CDF inside the band). Tied to the code per run: all four methods, every band cdf at every atom/"
          "neighbour/midpoint/±inf against the exact model, quantile curves, bracket, pt == EmpiricalDistribution, permutation, "
          "monotone maps, widening.",
    note="Proved on the model; the level tables (dkw/ks/ld) are parameters computed by the harness from public helpers. Not proved: "
         "monotonicity of scipy's quantile black boxes in the confidence (compared), float rounding (1e-12).",
)
