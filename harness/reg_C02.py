REG = dict(
    timeout=dict(quick=900, thorough=3000),
    trusted_base=[
        "level tables are parameters of the theorems; the harness computes them from the documented construction with the "
        "public helpers (utils.dkw_epsilon, scipy.stats.kstwo.ppf, beta interval/coverage functions, np.quantile, the "
        "generator's uniforms replayed from a cloned state) and the code's bands must equal the model built on them",
        "widening with the confidence: proved unconditionally for dkw (dkw_band_widens_with_confidence for 0 <= c <= c' < 1 "
        "with the closed-form radius, dkw_band_widens_up_to_confidence_one including c' = 1, the all-0 / all-1 tables of "
        "epsilon = +inf); proved for both ld methods on the model of the construction (same sorted simulated statistics ts "
        "in [0,1] for both confidences, critical value = numpy's linear-rule quantile of ts, tables clip([0] ++ lo_k(v)), "
        "clip(hi_k(v) ++ [1]) with the equal-tailed end points betaQuantile((1 -/+ v)/2) resp. the end points of the "
        "highest-density region {hdcov <= v}, n >= 2): ld_equal_tailed_band_widens_with_confidence, "
        "ld_highest_density_band_widens_with_confidence; that np.quantile follows the documented linear rule, that "
        "scipy's beta.ppf is the Beta quantile and that the code's highest-density search returns the end points of the "
        "level set is compared (the code's tables against the model per run), not proved; for ks the monotonicity of "
        "kstwo.ppf in the confidence is not proved: the clause is compared on the code's outputs and proved given "
        "level-wise ordered tables",
        "IEEE-754 rounding of np.diff / cumsum: compared at 1e-12 (C03's tolerance)",
    ],
    assumptions=["finite observations (infinite bounds allowed)", "quantile levels within 1e-12 of a band level excluded"],
)
TEXT = dict(
    level="Universal Lean theorems on the band model (any sample with ties, any bounds, any level table, every t): band cdf = level "
          "indexed by the count of extended sample points <= t; no mass below a or above b for every table; the lower band is 0 below the "
          "smallest observation and the upper band is 1 from the largest observation on (the dkw/ks tables meet the two hypotheses L_0 = 0, "
          "U_n = 1 for every eps >= 0); eps <= eps' nests the dkw/ks bands at every t; pt is the band with table i/n and lo <= pt <= hi; level-wise "
          "ordered tables give pointwise ordered cdfs (bracket, widening); invariance under permutations and under strictly "
          "increasing maps of sample, bounds and query; F <= G implies Q_G <= Q_F for arbitrary distribution functions (tuning-curve "
          "band inversion, any CDF inside the band). Tied to the code per run: all four methods, every band cdf at every atom/"
          "neighbour/midpoint/±inf against the exact model, quantile curves, bracket, pt == EmpiricalDistribution, permutation, "
          "monotone maps, widening. For dkw, raising the confidence never narrows the band is a theorem with no hypothesis "
          "on the tables (radius sqrt(log(2/(1-c))/(2n)) monotone in c; confidence 1 = the trivial band). For ld_equal_tailed and "
          "ld_highest_density (same seed, hence the same simulated statistics) it is a theorem on the model of the construction: "
          "numpy's linear-rule quantile of a fixed sorted sample is non-decreasing in the level (and lies between the smallest and "
          "largest value), equal-tailed intervals of a non-decreasing quantile function are nested in the coverage (the Beta quantile "
          "function is constructed and is non-decreasing), highest-density regions {hdcov <= v} are intervals nested in v whose end "
          "points are the equal-density pair of mass v, and level-wise widening of the tables is widening of the band at every t.",
    note="Proved on the model; the level tables (dkw/ks/ld) are parameters computed by the harness from public helpers. Widening with "
         "the confidence is unconditional for dkw and proved for the two ld methods on the model tables (critical value by numpy's "
         "documented linear rule, exact Beta quantiles / highest-density level sets). Not proved: that np.quantile, scipy's beta.ppf "
         "and the code's highest-density search compute those model quantities (compared per run), monotonicity of kstwo.ppf in "
         "the confidence for ks (compared), float rounding (1e-12).",
)
