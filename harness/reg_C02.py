REG = dict(
    timeout=dict(quick=900, thorough=3000),
    trusted_base=[
        "level tables are parameters of the theorems; the harness computes them from the documented construction with the "
        "public helpers (utils.dkw_epsilon, scipy.stats.kstwo.ppf, beta interval/coverage functions, np.quantile, the "
        "generator's uniforms replayed from a cloned state) and the code's bands must equal the model built on them",
        "widening with the confidence: proved unconditionally for dkw (dkw_band_widens_with_confidence for 0 <= c <= c' < 1 "
        "with the closed-form radius, dkw_band_widens_up_to_confidence_one including c' = 1, the all-0 / all-1 tables of "
        "epsilon = +inf); for ks / ld the monotonicity of kstwo.ppf / np.quantile / nestedness of scipy's beta intervals in "
        "the confidence is not proved: the clause is compared on the code's outputs (same seed) and proved given level-wise "
        "ordered tables",
        "IEEE-754 rounding of np.diff / cumsum: compared at 1e-12 (C03's tolerance)",
    ],
    assumptions=["finite observations (infinite bounds allowed)", "quantile levels within 1e-12 of a band level excluded"],
)
TEXT = dict(
    level="Universal Lean theorems on the band model (any sample with ties, any bounds, any level table, every t): band cdf = level "
          "indexed by the count of extended sample points <= t; no mass below a or above b for every table; the lower band is 0 below the "
          "smallest observation and the upper band is 1 from the largest observation on (the dkw/ks tables meet the two hypotheses L_0 = 0, "
          "U_n = 1 for every eps >= 0); eps <= eps' nests the dkw/ks bands at every t; pt is the band with table i/n and lo <= pt <= hi; level-wise "
          "ordered tables give pointwise ordered cdfs (bracket, widening); invariance under permutations and under strictly "
          "increasing maps of sample, bounds and query; F <= G implies Q_G <= Q_F for arbitrary distribution functions (tuning-curve "
          "band inversion, any CDF inside the band). Tied to the code per run: all four methods, every band cdf at every atom/"
          "neighbour/midpoint/±inf against the exact model, quantile curves, bracket, pt == EmpiricalDistribution, permutation, "
          "monotone maps, widening. For dkw, raising the confidence never narrows the band is a theorem with no hypothesis "
          "on the tables (radius sqrt(log(2/(1-c))/(2n)) monotone in c; confidence 1 = the trivial band).",
    note="Proved on the model; the level tables (dkw/ks/ld) are parameters computed by the harness from public helpers. Widening with "
         "the confidence is unconditional for dkw. Not proved: monotonicity of scipy's quantile black boxes in the confidence "
         "for ks / ld (compared), float rounding (1e-12).",
)
