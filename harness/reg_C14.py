REG = dict(
    trusted_base=[
        "the state machine lean/OpdaModel/Rng.lean mirrors the code's use of generators and functools.cache by hand "
        "(cache keys, n_trials=100000, which primitive each entry point draws, set_seed rebinding); the tie to the code is the "
        "per-call effect comparison of the correspondence, not a proof",
        "results are terms over an uninterpreted stream(seed,pos,k); numpy's bit generators, scipy's differential_evolution and "
        "multiprocessing.Pool.starmap (order preserving) are not modelled beyond 'a deterministic function of the arguments and the "
        "generator state, consuming a data-dependent number of steps'",
        "the fresh-process comparison runs the implementation in subprocesses of the same interpreter on the same machine "
        "(same os.cpu_count())",
    ],
    assumptions=["seeds are integers or Generator objects (set_seed(None) draws OS entropy and is not reproducible by design)",
                 "n_jobs >= 1; ld_highest_density needs n >= 2 (the code raises for n = 1 after having drawn)"],
    timeout=dict(quick=900, thorough=6000),
)
TEXT = dict(
    level="Universal Lean theorems about the executable state machine the driver runs (all histories of any length, every cost of the "
          "data-dependent draws): the specification machine (ld tables never memoised) is history independent at full strength; the "
          "repository's machine (ld table memoised on (n, confidence, kind, generator object, n_jobs) as functools.cache does) satisfies "
          "it for every call that does not repeat an earlier ld key (history_independent_partial) and coincides with the specification "
          "machine call by call on histories without repeats; the full statement is refuted for it by a two-call witness (finding F1, "
          "explicit and global generator); after set_seed(z) every default-generator call is reproducible at full strength (set_seed "
          "rebinds to a new object); explicit generators leave the global generator, its binding and numpy's legacy state untouched; "
          "n_jobs enters nothing but the key; no returned array aliases a cache cell, so overwriting one changes no later output. "
          "The machine is tied to the code on every run: per call, which generator object advanced and by exactly how many 64-bit "
          "steps (uniform draws, 100000 n for an ld miss, 0 for a hit), the global binding, legacy digest, equal terms => equal bytes; "
          "and the observed call is compared bit for bit with a fresh subprocess whose generator is in the same state.",
    note="Proved: properties of the model. Compared: the model's effect sets against the real code on ~50 (quick) / ~400 (thorough) "
         "histories, and history independence of the observed call directly (fresh subprocess), which needs no model. The F1 pattern is "
         "found on every run and keyed by an explicit predicate on the history; any other history dependence is reported unkeyed. "
         "Not covered: set_seed(None), bit generators other than PCG64, n_jobs beyond {1,2,16,None}.",
)
