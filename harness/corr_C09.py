"""C09 correspondence: reflection duality and location-scale equivariance of QuadraticDistribution and
NoisyQuadraticDistribution, by paired evaluations of the real code on mirrored / rescaled instances at the
property's tolerances.  The Lean model supplies (i) the margin of s = o/(b-a) to the implementation's internal
switch points (excluded by the property within 1e-9 relative), (ii) the bisection tie margin of ppf, and (iii) the
value of the *documented* integration algorithm, which decides whether a violation of the integrated average
curve is the known premature-convergence defect (finding F4) or something else."""
import warnings
from fractions import Fraction as Fr

import numpy as np

import common as C
import quad_common as Q

INF = float("inf")


def exact_std(a, b, y):
    """(y-a)/(b-a) correctly rounded"""
    z = (Fr(y) - Fr(a)) / (Fr(b) - Fr(a))
    return z.numerator / z.denominator


def gen_instance(rng, switches, noisy):
    a, b = Q.gen_ab(rng)
    r = rng.random()
    if r < 0.12:
        # coincidences between the paired instances: a support symmetric about 0 (the mirrored instance D' then has the
        # very same (a, b, c, o) and differs only in its shape) ...
        h = 0.5 * (b - a)
        a, b = -h, h
    elif r < 0.18:
        # ... and the standard support itself (D and D0 coincide)
        a, b = 0.0, 1.0
    c = Q.gen_c(rng)
    convex = rng.random() < 0.5
    s = Q.gen_s(rng, switches) if noisy else None
    return dict(noisy=noisy, a=a, b=b, c=c, convex=convex, s=s)


def gen_z(rng, s, k):
    """standardised evaluation points: inside [0,1], near both ends, and in the noise tails"""
    s = s or 0.0
    zs = [0.0, 1.0, 0.5, -6 * s, 1 + 6 * s, -0.25, 1.25]
    while len(zs) < k:
        r = rng.random()
        if r < 0.5:
            zs.append(rng.random())
        elif r < 0.7:
            zs.append(10.0 ** rng.uniform(-12, 0))
        elif r < 0.9:
            zs.append(1.0 - 10.0 ** rng.uniform(-12, 0))
        else:
            zs.append(rng.uniform(-8 * s - 0.1, 1 + 8 * s + 0.1))
    return zs


def gen_qpairs(rng, k):
    """(q, 1-q) with both exactly representable: u in [1/2,1] and its complement"""
    qs = [0.5, 1.0, 0.75]
    while len(qs) < k:
        r = rng.random()
        u = 0.5 + 0.5 * rng.random() if r < 0.6 else 1.0 - 10.0 ** rng.uniform(-12, -0.31)
        u = min(max(u, 0.5), 1.0)
        qs.append(u)
    out = []
    for u in qs:
        out.append(u)
        out.append(1.0 - u)
    return out


def mk(cls_q, cls_n, inst, a, b, convex, o=None):
    if inst["noisy"]:
        return cls_n(a, b, inst["c"], o, convex)
    return cls_q(a, b, inst["c"], convex)


def run(seed, tier, replay=None):
    from opda.parametric import NoisyQuadraticDistribution as NQ
    from opda.parametric import QuadraticDistribution as QD
    rep = C.Report("C09", seed, tier)
    rng = C.rng_for("C09", seed)
    rng_hist = C.rng_for("C09:integrated-history", seed)     # its own stream: the instances drawn from `rng` do not depend on it
    drv = C.Driver()
    switches = Q.SWITCH_S + Q.table_min_scales()
    n_inst = 160 if tier == "quick" else 2500
    n_avg = 36 if tier == "quick" else 400          # noisy integrated curves are expensive
    insts = []
    if replay is not None:
        v = replay.get("violation", replay)
        inp = v.get("input", v)
        insts.append(dict(noisy="o" in inp or "s" in inp, a=C.unhex(inp["a"]), b=C.unhex(inp["b"]), c=int(inp["c"]),
                          convex=bool(inp["convex"]), s=C.unhex(inp["s"]) if "s" in inp else None, replay=inp))
    else:
        # far locations for the integrated curves (the property puts no bound on the location there: "D has (a,b,c[,s(b-a)]) with b>a"):
        # supports 1e3 ... 1e6 widths from the origin, sharp curves (small s); they come first so that they are always within the
        # budget of integrated pairs, and only the integrated stage is run on them (the pointwise identities are stated at tolerances
        # relative to the scale, which input rounding alone exceeds that far out)
        far_rng = C.rng_for("C09:far-location", seed)
        for t, wv in ((1000.0, 1.0), (-5000.0, 2.0), (30000.0, 1.0), (far_rng.choice([1e5, -1e6]), far_rng.choice([1.0, 1e-3]))):
            insts.append(dict(noisy=True, a=t * wv, b=t * wv + wv, c=far_rng.choice([1, 3, 4, 5, 7, 10]), convex=far_rng.random() < 0.5,
                              s=far_rng.choice([1.7e-3, 4.1e-3, 1.3e-2]), far=True))
        for i in range(n_inst):
            insts.append(gen_instance(rng, switches, noisy=(i % 2 == 1)))

    # ---- model round 1: switch margins of the noisy instances (of D and of D0)
    reqs, idx = [], []
    for ii, k in enumerate(insts):
        if k["noisy"]:
            k["o"] = k["s"] * (k["b"] - k["a"])
            reqs.append(("quad.nswitch", Q.nparams_line(k["a"], k["b"], k["c"], k["o"], k["convex"])))
            idx.append((ii, "D"))
            reqs.append(("quad.nswitch", Q.nparams_line(0.0, 1.0, k["c"], k["s"], k["convex"])))
            idx.append((ii, "D0"))
    for (ii, which), r in zip(idx, drv.run(reqs)):
        insts[ii].setdefault("margin", {})[which] = None if r is None else C.unhex(r[0])

    avg_budget = n_avg
    for ii, k in enumerate(insts):
        a, b, c, convex, noisy = k["a"], k["b"], k["c"], k["convex"], k["noisy"]
        w = b - a
        o = k.get("o", 0.0) if noisy else 0.0
        s = k["s"] if noisy else 0.0
        S = w + 12 * o
        cls = "NoisyQuadraticDistribution" if noisy else "QuadraticDistribution"
        inp = dict(a=C.fhex(a), b=C.fhex(b), c=c, convex=convex)
        if noisy:
            inp.update(s=C.fhex(s), o=C.fhex(o))
        rep.count("class=" + ("noisy" if noisy else "noiseless"))
        rep.count(f"c={c}")
        if a == -b:
            rep.count("support_symmetric_about_0")
        if (a, b) == (0.0, 1.0):
            rep.count("support=[0,1]")
        if noisy:
            m = k.get("margin", {})
            if m.get("D") is None or m.get("D0") is None:
                rep.disagree(op="quad.nswitch", note="model rejected an input of the property's domain", input=inp)
                continue
            if s != 0.0 and min(m["D"], m["D0"]) < 1e-9:
                rep.skip("s_within_1e-9_of_an_internal_switch_point")
                continue
            rep.count("regime=" + ("point-noise-free" if s == 0 else "noiseless" if s < 1e-6 else "series" if s < 10 else "normal"))
            if s != 0 and min(m["D"], m["D0"]) < 1e-1:
                rep.count("near_switch_point(<10%)")
        tol_cdf = 5e-6 if noisy else 1e-6
        with warnings.catch_warnings():
            warnings.simplefilter("ignore")
            try:
                D = mk(QD, NQ, k, a, b, convex, o)
                Dr = mk(QD, NQ, k, -b, -a, not convex, o)
                D0 = mk(QD, NQ, k, 0.0, 1.0, convex, s)
            except Exception as e:
                rep.violate(what="constructor raised on an input of the property's domain", error=repr(e), input=inp, call=cls)
                continue
            zs = gen_z(rng, s, 16)
            ys = [a + w * z for z in zs]
            zex = [exact_std(a, b, y) for y in ys]      # the exactly standardised points (input rounding removed)
            qp = gen_qpairs(rng, 8)
            ns = Q.gen_ns(rng, 5)
            q_curve = rng.choice([0.5, 0.5, 0.25, 0.75, 0.9375])
            if k.get("far"):
                rep.count("integrated:far_location(|a|/(b-a)=%g)" % abs(a / w))
            else:
                try:
                    paired_checks(rep, rng, drv, k, cls, inp, D, Dr, D0, a, b, c, convex, o, s, S, w, ys, zex, qp, ns,
                                  q_curve, tol_cdf)
                except Exception as e:   # a documented method raised on a valid input
                    rep.violate(what="a documented method raised on an input of the property's domain", error=repr(e),
                                input=inp, call=cls)
                    continue
            if noisy and avg_budget > 0 and s > 0:
                avg_budget -= 1
                nmn = integrated_checks(rep, rng, drv, k, inp, NQ, D, Dr, D0, a, b, c, convex, o, s, S, w)
                integrated_history_checks(rep, rng_hist, drv, k, inp, NQ, D, Dr, D0, a, b, c, convex, o, s, S, w, *nmn)

    return rep.result(
        rule="instances: (a,b) as in C05 (b-a in [1e-6,1e6], |a|+|b|<=1e3(b-a)), c in 1..10, both shapes, alternately "
             "noiseless / noisy with s=o/(b-a) in {0} u log-uniform[1e-9,1e3] u both sides (1e-8..1e-1 relative) of every "
             "switch point (1e-6, 10, 5e-2, table min_scale values, 1e-2, 3e-3, 6e-4, 3e-4); pairs (D, D'=(-b,-a,c,o,not convex)) and "
             "(D, D0=(0,1,c,s)); y at 16 standardised points incl. ends, tails, log-close to the ends; q in complementary "
             "exactly-representable pairs; n in [1,1000] real; minimize in {None,False,True}. Integrated noisy average curve: each pair "
             "once on D, D', D0 as they are, and once with a history (every one of D, D', D0 asked for both directions on the same object, "
             "other direction first / flipped back and forth) against new objects evaluated once, all four combinations "
             "(hist|fresh, hist|fresh) of the two members, both directions. A case is one paired comparison.",
        extra=dict(driver_lines=drv.lines,
                   oracle="the pairing itself (the property is a relation between two evaluations of the code); for the "
                          "integrated curve: adaptive Gauss-Legendre quadrature of the class's own cdf, and the Lean model of "
                          "the documented algorithm to attribute a deviation to finding F4"))


def close(x, y, tol):
    x, y = float(x), float(y)
    if x != x or y != y:
        return (x != x) and (y != y)
    if abs(x) == INF or abs(y) == INF:
        return x == y
    return abs(x - y) <= tol


def paired_checks(rep, rng, drv, k, cls, inp, D, Dr, D0, a, b, c, convex, o, s, S, w, ys, zex, qp, ns, q_curve, tol_cdf):
    noisy = k["noisy"]
    ysa = np.array(ys)
    # ------------------------------------------------ reflection: cdf, pdf
    F, Fr_ = D.cdf(ysa), Dr.cdf(-ysa)
    p, pr = D.pdf(ysa), Dr.pdf(-ysa)
    for y, f, fr, pp, ppr in zip(ys, F, Fr_, p, pr):
        rep.case(("refl", cls, inp["a"], inp["b"], c, convex, inp.get("s"), C.fhex(y)))
        if not close(f, 1.0 - fr, 1e-12):
            rep.violate(what="D.cdf(y) differs from 1 - D'.cdf(-y) by more than 1e-12", input=dict(inp, y=C.fhex(y)),
                        expected=1.0 - float(fr), observed=float(f), call=cls + ".cdf")
        if not close(pp, ppr, 1e-12 * max(abs(float(pp)), 1.0 / S)):
            rep.violate(what="D.pdf(y) differs from D'.pdf(-y) by more than 1e-12 (relative to max(pdf, 1/scale))",
                        input=dict(inp, y=C.fhex(y)), expected=float(ppr), observed=float(pp), call=cls + ".pdf")
    # ------------------------------------------------ reflection: ppf (exact complementary levels)
    qa = np.array(qp)
    x, xr = D.ppf(qa), Dr.ppf(1.0 - qa)
    bad = [j for j, (u, v) in enumerate(zip(x, xr)) if not close(u, -v, 1e-12 * S)]
    tie = dict(zip(bad, ppf_tie_margins(drv, k, a, b, c, o, convex, [qp[j] for j in bad]))) if (noisy and bad) else {}
    for j, (q, u, v) in enumerate(zip(qp, x, xr)):
        rep.case(("refl_ppf", cls, inp["a"], inp["b"], c, convex, inp.get("s"), C.fhex(q)))
        if j in bad:
            gap = (min(abs(float(D.cdf(float(u))) - float(D.cdf(-float(v)))), abs(float(Dr.cdf(-float(u))) - float(Dr.cdf(float(v)))))
                   if np.isfinite(u) and np.isfinite(v) else None)
            ppf_pair_failed(rep, cls, inp, S, tie.get(j), "D.ppf(q) differs from -D'.ppf(1-q) by more than 1e-12 of the scale",
                            dict(q=C.fhex(q)), -float(v), float(u), ".ppf", gap)
    # ------------------------------------------------ reflection: tuning curves
    nsa = np.array(ns)
    qc = q_curve            # dyadic: 1-qc exact
    for mn in (None, False, True):
        mnr = None if mn is None else (not mn)
        t, tr = D.quantile_tuning_curve(nsa, q=qc, minimize=mn), Dr.quantile_tuning_curve(nsa, q=1.0 - qc, minimize=mnr)
        eff = convex if mn is None else mn
        lv = [1 - (1 - qc) ** (1 / n) if eff else qc ** (1 / n) for n in ns]
        bad = [j for j, (u, v) in enumerate(zip(t, tr)) if not close(u, -v, 1e-12 * S)]
        tie = dict(zip(bad, ppf_tie_margins(drv, k, a, b, c, o, convex, [lv[j] for j in bad]))) if (noisy and bad) else {}
        for j, (n, u, v) in enumerate(zip(ns, t, tr)):
            rep.case(("refl_qtc", cls, inp["a"], inp["b"], c, convex, inp.get("s"), mn, C.fhex(n)))
            if j in bad:
                gap = (min(abs(float(D.cdf(float(u))) - float(D.cdf(-float(v)))), abs(float(Dr.cdf(-float(u))) - float(Dr.cdf(float(v)))))
                   if np.isfinite(u) and np.isfinite(v) else None)
                ppf_pair_failed(rep, cls, inp, S, tie.get(j),
                                "quantile_tuning_curve of D differs from minus the complementary curve of D' by more than 1e-12 of the scale",
                                dict(n=C.fhex(n), q=C.fhex(qc), minimize=mn), -float(v), float(u), ".quantile_tuning_curve", gap)
        if not noisy:
            t, tr = D.average_tuning_curve(nsa, minimize=mn), Dr.average_tuning_curve(nsa, minimize=mnr)
            for n, u, v in zip(ns, t, tr):
                rep.case(("refl_avg", cls, inp["a"], inp["b"], c, convex, mn, C.fhex(n)))
                if not close(u, -v, 1e-12 * S):
                    rep.violate(what="average_tuning_curve of D differs from minus the complementary curve of D' by more than 1e-12 of the scale",
                                input=dict(inp, n=C.fhex(n), minimize=mn), expected=-float(v), observed=float(u),
                                call=cls + ".average_tuning_curve")
    # ------------------------------------------------ location-scale: cdf, pdf at exactly standardised points
    # z is (y-a)/(b-a) correctly rounded; the real number it stands for lies between the two float neighbours of z, so
    # D0 is evaluated at z and at both neighbours and D's value must fall inside that bracket widened by the property's
    # tolerance (this removes the rounding of the *pairing* near the singular end of the c=1 density, nothing else)
    za = np.array(zex)
    zl, zh = np.nextafter(za, -INF), np.nextafter(za, INF)
    F0 = np.vstack([D0.cdf(zl), D0.cdf(za), D0.cdf(zh)])
    p0 = np.vstack([D0.pdf(zl), D0.pdf(za), D0.pdf(zh)])
    for j, (y, z, f, pp) in enumerate(zip(ys, zex, F, p)):
        rep.case(("affine", cls, inp["a"], inp["b"], c, convex, inp.get("s"), C.fhex(y)))
        flo, fhi = float(np.min(F0[:, j])), float(np.max(F0[:, j]))
        if not (flo - tol_cdf <= float(f) <= fhi + tol_cdf):
            rep.violate(what=f"D.cdf(a+(b-a)z) differs from D0.cdf(z) by more than {tol_cdf}", input=dict(inp, y=C.fhex(y), z=C.fhex(z)),
                        expected=float(F0[1, j]), observed=float(f), call=cls + ".cdf")
        plo, phi = float(np.min(p0[:, j])), float(np.max(p0[:, j]))
        tp = tol_cdf * max(1.0, abs(float(p0[1, j]))) if np.isfinite(p0[1, j]) else 0.0
        val = w * float(pp)
        ok = (plo - tp <= val <= phi + tp) if np.isfinite(val) else (val == phi or val == plo)
        if not ok:
            # is the discrepancy inside the implementation's own last-place noise?  perturb D0's argument by up to 8 ulps
            # of 1 (what the two ways of computing `loc` = (y-a)/(b-a) resp. z differ by) and look at the spread
            kw = {}
            if noisy and np.isfinite(val):
                zz = np.array([z + jj * 2.0 ** -52 for jj in range(-8, 9)])
                with warnings.catch_warnings():
                    warnings.simplefilter("ignore")
                    pv = np.asarray(D0.pdf(zz), dtype=float)
                spread = float(np.max(pv) - np.min(pv))
                if float(np.min(pv)) - tp <= val <= float(np.max(pv)) + tp and spread > 0:
                    kw = dict(finding_key=KEY_PDF_NOISE, spread_over_8ulp=spread)
            rep.violate(what=f"(b-a)*D.pdf(a+(b-a)z) differs from D0.pdf(z) by more than {tol_cdf}"
                             + (": within the rounding noise of the noisy pdf itself (an 8-ulp change of the argument moves "
                                "D0.pdf by more than the discrepancy)" if kw else ""),
                        input=dict(inp, y=C.fhex(y), z=C.fhex(z)),
                        expected=float(p0[1, j]), observed=val, call=cls + ".pdf", **kw)
    # ------------------------------------------------ location-scale: ppf, quantile curve, sample through the cdf
    def through_cdf(name, yD, y0, extra):
        """F0((yD - a)/(b-a)) against F0(y0)"""
        yD, y0 = np.asarray(yD, dtype=float), np.asarray(y0, dtype=float)
        zD = np.array([exact_std(a, b, v) if np.isfinite(v) else v for v in yD])
        fa, fb = D0.cdf(zD), D0.cdf(y0)
        for j, (u, v) in enumerate(zip(fa, fb)):
            rep.case(("affine_" + name, cls, inp["a"], inp["b"], c, convex, inp.get("s"), extra, j))
            if not close(u, v, tol_cdf):
                rep.violate(what=f"{name} of D is not a+(b-a) times that of D0 (compared through D0.cdf, tolerance {tol_cdf})",
                            input=dict(inp, index=j, **extra), expected=float(v), observed=float(u), call=cls + "." + name)
    qin = np.array([q for q in qp if 0.0 < q < 1.0])
    through_cdf("ppf", D.ppf(qin), D0.ppf(qin), dict(qs=[C.fhex(q) for q in qin]))
    for mn in (None, False, True):
        through_cdf("quantile_tuning_curve", D.quantile_tuning_curve(nsa, q=qc, minimize=mn),
                    D0.quantile_tuning_curve(nsa, q=qc, minimize=mn), dict(ns=[C.fhex(n) for n in ns], q=C.fhex(qc), minimize=mn))
    sd = rng.randrange(2 ** 31)
    through_cdf("sample", D.sample(6, generator=np.random.default_rng(sd)), D0.sample(6, generator=np.random.default_rng(sd)),
                dict(seed=sd, size=6))
    if not noisy:
        for mn in (None, False, True):
            t, t0 = D.average_tuning_curve(nsa, minimize=mn), D0.average_tuning_curve(nsa, minimize=mn)
            for n, u, v in zip(ns, t, t0):
                rep.case(("affine_avg", cls, inp["a"], inp["b"], c, convex, mn, C.fhex(n)))
                if not close(u, a + w * float(v), 1e-6 * S):
                    rep.violate(what="average_tuning_curve of D is not a+(b-a) times that of D0 (1e-6 of the scale)",
                                input=dict(inp, n=C.fhex(n), minimize=mn), expected=a + w * float(v), observed=float(u),
                                call=cls + ".average_tuning_curve")


KEY_TIE = "C09-noisy-ppf-reflection-exact-bisection-tie"
KEY_F4 = "F4-noisy-average-curve-premature-convergence-zero-inside-range"
KEY_FLAT = "C09-noisy-ppf-reflection-decision-within-1e-13-of-tie-cdf-cannot-resolve"
KEY_PDF_NOISE = "C09-noisy-pdf-scale-equivariance-within-rounding-noise-of-pdf"


def ppf_pair_failed(rep, cls, inp, S, tie_margin, what, extra, expected, observed, meth, cdf_gap):
    """A mirrored ppf pair differs by more than 1e-12 of the scale.  The Lean theorem `noisy_ppf_reflect` says the two
    bisections are mirror images unless a midpoint's cdf value ties with the level; the model reports that margin:
      * series regime, margin == 0 (an *exact* tie, e.g. c = 2 at q = 1/2 where F(midpoint) = 1/2) and the two results
        within 2^-29 of the bracket of each other: the code's `<` moves `hi` in both instances, the results end on
        opposite sides of the tie point -> known finding (keyed);
      * margin < 1e-13 and the code's own cdf (of D or of D') takes the same value at the two answers to 1e-13 — ten times
        finer than the 1e-12 to which the property itself pins the cdf identity — i.e. the float cdf is flat or noisy at
        that level there (q within ~1e-9 of 0 or 1), or the two float cdfs decide a last-place tie differently; the two
        answers then differ by a few final brackets (observed up to 4e-7 of the scale; cap 1e-5) against the property's
        1e-12 -> by the letter a violation on the unchanged tree: known finding (keyed; three replays at most);
      * otherwise a plain violation."""
    diff = abs(expected - observed)
    if tie_margin is not None and tie_margin == 0.0 and diff <= 2.0 ** -29 * S:
        rep.count("exact_tie_pairs")
        if rep.hist["exact_tie_pairs"] > 3:      # keep room in the (bounded) violation list for anything else
            return
        rep.violate(what=what + ": bisection tie-break (`cdf(mid) < q`) is not reflection-symmetric at an exact tie",
                    input=dict(inp, **extra), expected=expected, observed=observed, call=cls + meth, finding_key=KEY_TIE,
                    tie_margin=tie_margin)
    elif tie_margin is not None and tie_margin < 1e-13 and cdf_gap is not None and cdf_gap <= 1e-13 and diff <= 1e-5 * S:
        rep.count("ppf_pairs_indistinguishable_by_the_cdf_at_1e-13")
        if rep.hist["ppf_pairs_indistinguishable_by_the_cdf_at_1e-13"] > 3:
            return
        rep.violate(what=what + ": a bisection decision `cdf(mid) < q` lies within 1e-13 of a tie and the code's own cdf takes the same "
                                "value (to 1e-13) at the two answers - the float cdf near 1 cannot resolve a level that its mirror image "
                                "near 0 resolves",
                    input=dict(inp, **extra), expected=expected, observed=observed, call=cls + meth, finding_key=KEY_FLAT,
                    tie_margin=tie_margin, cdf_gap=cdf_gap, diff_over_scale=diff / S)
    else:
        rep.violate(what=what, input=dict(inp, **extra), expected=expected, observed=observed, call=cls + meth,
                    tie_margin=tie_margin, cdf_gap=cdf_gap)


def ppf_tie_margins(drv, k, a, b, c, o, convex, levels):
    """model's min_k |cdf(mid_k) - level| over the 30 bisection steps (1 outside the bisection branch)"""
    pl = Q.nparams_line(a, b, c, o, convex)
    # level^(1/1) with minimize=False is the level itself
    r = drv.run([("quad.nqtc", f"{pl} 0 {C.fhex(min(max(lv, 0.0), 1.0))} {C.flist([1.0])}") for lv in levels])
    return [None if x is None else C.unhex(x[1]) for x in r]


def model_avg(drv, a, b, c, o, convex, mn, n, cap=16):
    """the Lean model of the documented loop, with a budget of 2^cap integrand evaluations"""
    r = drv.run([("quad.navg", f"{Q.nparams_line(a, b, c, o, convex)} {Q.mn_tok(mn)} - {cap} {C.flist([n])}")])[0]
    if r is None or r[0] in ("fail", "capped"):
        return None
    return dict(rounds=int(r[0]), value=C.unhex(r[1]), errs=[C.unhex(t) for t in r[2:]])


def is_F4(drv, dist, a, b, c, o, convex, mn, n, value, truth, S):
    """explicit predicate for finding F4 on ONE instance: (i) 0 lies inside the integration range (a-6o, b+6o),
    (ii) the returned value is off the quadrature truth by more than the property's allowance, and (iii) the code
    returns what the *documented* algorithm returns (Lean model of the loop with the 1[y>0] integrand: same number of
    rounds when the model's stop decision is not a near-tie, value within 4 atol) — so the deviation is the algorithm's
    own premature convergence, not some other change of behaviour."""
    lo, hi = a - 6 * o, b + 6 * o
    atol = 1e-6 * (hi - lo)
    if not (lo <= 0.0 < hi):
        return False
    if abs(value - truth) <= 100 * max(atol, 1e-6 * S):
        return False
    m = model_avg(drv, a, b, c, o, convex, mn, n)
    return m is not None and abs(m["value"] - value) <= 4 * atol


def integrated_checks(rep, rng, drv, k, inp, NQ, D, Dr, D0, a, b, c, convex, o, s, S, w):
    """noisy average_tuning_curve: reflection and location-scale pairs at 2e-4 of the scale"""
    cls = "NoisyQuadraticDistribution"
    n = rng.choice([1.0, 2.0, 10.0, 100.0, 1000.0, float(rng.randint(2, 999)), 10.0 ** rng.uniform(0, 3)])
    mn = rng.choice([None, False, True])
    if k.get("replay") and "n" in k["replay"]:       # replay of a recorded violation: the recorded n / minimize
        n = C.unhex(k["replay"]["n"])
        mn = k["replay"].get("minimize")
    eff = convex if mn is None else mn
    na = np.array([n])
    rep.count("integrated_curve_pairs")
    def three():
        with warnings.catch_warnings():
            warnings.simplefilter("ignore")
            return (float(D.average_tuning_curve(na, minimize=mn)[0]),
                    float(Dr.average_tuning_curve(na, minimize=None if mn is None else (not mn))[0]),
                    float(D0.average_tuning_curve(na, minimize=mn)[0]))
    status, val = Q.guarded_call(three, timeout=60.0, extra_mem=2 << 30)
    if status != "ok":
        # the call did not come back inside 60 s / 2 GiB: that is C08's subject ("returns without unbounded memory
        # growth"); the C09 relation cannot be evaluated on this pair
        rep.skip("integrated_curve_did_not_return_within_60s_2GiB(" + status + ")")
        rep.notes.append(f"average_tuning_curve guard {status}: a={a!r} b={b!r} c={c} o={o!r} convex={convex} n={n!r} minimize={mn}")
        return n, mn
    v, vr, v0 = val
    S0 = 1.0 + 12 * s
    tol = 2e-4 * S
    rep.case(("navg_reflect", inp["a"], inp["b"], c, convex, inp["s"], mn, C.fhex(n)))
    rep.case(("navg_affine", inp["a"], inp["b"], c, convex, inp["s"], mn, C.fhex(n)))
    bad_r = not close(v, -vr, tol)
    bad_a = not close(v, a + w * v0, tol)
    if not (bad_r or bad_a):
        return n, mn
    # attribute: which instance is off its own quadrature truth, and is it the documented algorithm's defect?
    tD = Q.expect_best(D, n, eff, a, b, o, 1e-9 * S)
    t0 = Q.expect_best(D0, n, eff, 0.0, 1.0, s, 1e-9 * S0)
    tr = Q.expect_best(Dr, n, not eff, -b, -a, o, 1e-9 * S)
    f4 = dict(D=is_F4(drv, D, a, b, c, o, convex, mn, n, v, tD, S),
              D0=is_F4(drv, D0, 0.0, 1.0, c, s, convex, mn, n, v0, t0, S0),
              Dr=is_F4(drv, Dr, -b, -a, c, o, not convex, None if mn is None else (not mn), n, vr, tr, S))
    detail = dict(D=dict(value=v, quadrature=tD), D0=dict(value=v0, quadrature=t0), Dr=dict(value=vr, quadrature=tr), F4=f4)
    if bad_a:
        key = KEY_F4 if (f4["D"] or f4["D0"]) else None
        kw = dict(finding_key=key) if key else {}
        rep.violate(what="integrated average_tuning_curve of D is not a+(b-a) times that of D0 (2e-4 of the scale)"
                         + (": premature stop of the trapezoid refinement (the value equals the Lean model of the loop, so the error estimate itself was fooled)" if key else ""),
                    input=dict(inp, n=C.fhex(n), minimize=mn), expected=a + w * v0, observed=v, detail=detail,
                    call=cls + ".average_tuning_curve", **kw)
    if bad_r:
        key = KEY_F4 if (f4["D"] or f4["Dr"]) else None
        kw = dict(finding_key=key) if key else {}
        rep.violate(what="integrated average_tuning_curve of D is not minus the complementary curve of D' (2e-4 of the scale)"
                         + (": premature stop of the trapezoid refinement (the value equals the Lean model of the loop, so the error estimate itself was fooled)" if key else ""),
                    input=dict(inp, n=C.fhex(n), minimize=mn), expected=-vr, observed=v, detail=detail,
                    call=cls + ".average_tuning_curve", **kw)
    return n, mn


HISTORIES = ("other_direction_first", "flipped_back_and_forth")
PRIME_NAME = dict(Dr="D'", D0="D0")


def integrated_history_checks(rep, rng, drv, k, inp, NQ, D, Dr, D0, a, b, c, convex, o, s, S, w, n, mn):
    """history stratum of the integrated curve.  The property relates *distributions*: the maximising curve of D is minus the
    minimising curve of D' and a+(b-a) times the curve of D0, whichever objects stand for D, D', D0 and whatever they were asked
    before.  `integrated_checks` drives D, D', D0 through mirrored call sequences, so a state that an instance carries from one
    call to the next (a memo on the instance that forgets the direction of optimisation, say) corrupts both members of a pair
    in mirrored ways and cancels.  Here, in one forked child,
      * every one of D, D', D0 is asked for BOTH directions on the same object: `other_direction_first` = the other direction,
        then the compared call; `flipped_back_and_forth` = the compared call, the other direction, the compared call again
        (the compared direction is minimize True / False / None as drawn, so True-then-False and False-then-True both occur);
        the value judged for a direction is the LAST one the object returned for it ("hist");
      * every one of D, D', D0 is also built anew and evaluated exactly once, per direction ("fresh": instance-independent);
      * the reflection and the location-scale identity are judged, at the property's 2e-4 of the scale, for every combination
        (hist, hist), (hist, fresh), (fresh, hist), (fresh, fresh) of the two members, for both directions - a corruption
        common to the two members of a pair cannot cancel against a member with a different history.
    The verdict is the property's own clause on two evaluations of the code; the quadrature of the class's own cdf and the Lean
    model of the documented loop only attribute a failing pair to finding F4 (all members that are off their own quadrature
    value must be F4 for the pair to count as known)."""
    cls = "NoisyQuadraticDistribution"
    eff = convex if mn is None else mn
    hist = rng.choice(HISTORIES)
    if k.get("replay") and k["replay"].get("history") in HISTORIES:
        hist = k["replay"]["history"]
    na = np.array([n])
    rep.count("integrated_history=" + hist)
    rep.count("integrated_history:compared_direction=" + ("minimize" if eff else "maximize") + ("(minimize=None)" if mn is None else ""))
    rep.count("integrated_history:" + ("c=2(symmetric:the_two_directions_are_mirror_images)" if c == 2 else "c!=2"))
    # role -> (constructor arguments, minimize of the compared call, minimize of the other direction, scale, effective directions)
    roles = dict(D=((a, b, c, o, convex), mn, not eff, S),
                 Dr=((-b, -a, c, o, not convex), None if mn is None else (not mn), eff, S),
                 D0=((0.0, 1.0, c, s, convex), mn, not eff, 1.0 + 12 * s))
    objs = dict(D=D, Dr=Dr, D0=D0)
    order = ("oth", "cmp") if hist == "other_direction_first" else ("cmp", "oth", "cmp")

    def sequence():
        vals, log = {}, []
        with warnings.catch_warnings():
            warnings.simplefilter("ignore")
            def avg(X, m):
                try:
                    return float(X.average_tuning_curve(na, minimize=m)[0])
                except MemoryError:
                    return None
            for role, (args, m_cmp, m_oth, _) in roles.items():
                for d_ in order:
                    m = m_cmp if d_ == "cmp" else m_oth
                    vals[role, d_, "hist"] = avg(objs[role], m)
                    log.append((role, "same object", m, vals[role, d_, "hist"]))
            for role, (args, m_cmp, m_oth, _) in roles.items():
                for d_ in ("cmp", "oth"):
                    m = m_cmp if d_ == "cmp" else m_oth
                    vals[role, d_, "fresh"] = avg(NQ(*args), m)
                    log.append((role, "new object", m, vals[role, d_, "fresh"]))
        return [(kk, v) for kk, v in vals.items()], log

    ncalls = 3 * len(order) + 6
    status, got = Q.guarded_call(sequence, timeout=60.0 * ncalls / 3, extra_mem=2 << 30)
    if status != "ok":
        rep.skip("integrated_history_did_not_return_within_%ds_2GiB(%s)" % (20 * ncalls, status))
        rep.notes.append(f"average_tuning_curve guard {status} ({hist}): a={a!r} b={b!r} c={c} o={o!r} convex={convex} n={n!r} minimize={mn}")
        return
    vals, log = dict((tuple(kk), v) for kk, v in got[0]), got[1]
    tol = 2e-4 * S
    truth, f4c = {}, {}

    def member(role, d_, st):
        """(off its own quadrature value by more than C08's allowance?, is that the documented loop's own defect F4?)"""
        args, m_cmp, m_oth, S_ = roles[role]
        e_ = (eff if d_ == "cmp" else (not eff)) if role != "Dr" else ((not eff) if d_ == "cmp" else eff)
        if (role, d_) not in truth:
            truth[role, d_] = Q.expect_best(objs[role], n, e_, args[0], args[1], args[3], 1e-9 * S_)
        v = vals[role, d_, st]
        off = not abs(v - truth[role, d_]) <= 1e-4 * S_          # 100*max(atol, 1e-6*scale) with the default atol = 1e-6*scale
        if (role, d_, st) not in f4c:
            f4c[role, d_, st] = off and is_F4(drv, objs[role], args[0], args[1], c, args[3], args[4], m_cmp if d_ == "cmp" else m_oth,
                                               n, v, truth[role, d_], S_)
        return off, f4c[role, d_, st]

    describe = dict(hist=("an object that was asked for the other direction first" if hist == "other_direction_first" else
                          "an object that was asked for the compared direction, then for the other one, before"),
                    fresh="a new object evaluated once")
    found = {}
    for d_ in ("cmp", "oth"):
        mD = roles["D"][1] if d_ == "cmp" else roles["D"][2]
        for sD in ("hist", "fresh"):
            for sX in ("hist", "fresh"):
                for kind, other in (("reflect", "Dr"), ("affine", "D0")):
                    v, x = vals["D", d_, sD], vals[other, d_, sX]
                    if v is None or x is None:
                        rep.skip("integrated_history_pair:a_member_ran_out_of_memory(C08's subject)")
                        continue
                    rep.case(("navg_hist_" + kind, inp["a"], inp["b"], c, convex, inp["s"], mn, C.fhex(n), hist, d_, sD, sX))
                    exp = -x if kind == "reflect" else a + w * x
                    if close(v, exp, tol):
                        continue
                    rep.count("integrated_history:failing_pairs")
                    offs = [member("D", d_, sD), member(other, d_, sX)]
                    known = any(f for _, f in offs) and all(f for off, f in offs if off)
                    what = ("integrated average_tuning_curve of D is not " +
                            ("minus the complementary curve of D'" if kind == "reflect" else "a+(b-a) times that of D0") +
                            f" (2e-4 of the scale) when D is {describe[sD]} and {PRIME_NAME[other]} is {describe[sX]}")
                    rec = dict(what=what, known=known, expected=exp, observed=v,
                               input=dict(inp, n=C.fhex(n), minimize=mn, history=hist, pair=f"D:{sD} vs {other}:{sX}",
                                          judged=f"D.average_tuning_curve([n], minimize={mD}) ({'the compared call' if d_ == 'cmp' else 'the other direction'})"),
                               detail=dict(calls_in_order=[dict(distribution=r, object=ob, minimize=m, value=v_) for r, ob, m, v_ in log],
                                           quadrature_of_own_cdf={f"{r}:{dd}": t for (r, dd), t in truth.items()},
                                           F4={f"{r}:{dd}:{st}": f for (r, dd, st), f in f4c.items()}))
                    # one replay per identity and pair of instances; an unexplained one takes precedence over a known one
                    if kind not in found or (found[kind]["known"] and not known):
                        found[kind] = rec
    for kind, rec in found.items():
        kw = dict(finding_key=KEY_F4) if rec["known"] else {}
        rep.violate(what=rec["what"] + (": premature stop of the trapezoid refinement (the value equals the Lean model of the loop, so the "
                                        "error estimate itself was fooled)" if rec["known"] else ""),
                    input=rec["input"], expected=rec["expected"], observed=rec["observed"], detail=rec["detail"],
                    call=cls + ".average_tuning_curve", **kw)


if __name__ == "__main__":
    C.main(run)
