"""Per-property configuration of ./check, assembled from harness/reg_C??.py (one file per property so that
properties can be added independently).  Each reg file defines

  REG  = dict(lean_targets=[...], props_files=[...], harnesses=[...], trusted_base=[...], assumptions=[...],
              certificates=bool, uses_table=bool, timeout=dict(quick=s, thorough=s))      (all keys optional)
  TEXT = dict(level="...", note="...", technique="...", design="DESIGN.md §3 Cxx")       (MANIFEST wording)
"""
import glob
import importlib.util
import os

HERE = os.path.dirname(os.path.abspath(__file__))

COMMON_TRUST = [
    "Lean 4.33 kernel; axioms propext, Classical.choice, Quot.sound only (audited per theorem on every run)",
    "Mathlib v4.33 as a library of proved facts",
    "the correspondence harness and its generators (sampling; distributions printed in the evidence)",
    "CPython float.as_integer_ratio / struct packing for the bit-exact line protocol",
]

PROPS, TEXT = {}, {}

for path in sorted(glob.glob(os.path.join(HERE, "reg_C*.py"))):
    pid = os.path.basename(path)[4:-3]
    spec = importlib.util.spec_from_file_location("reg_" + pid, path)
    mod = importlib.util.module_from_spec(spec)
    spec.loader.exec_module(mod)
    kw = dict(mod.REG)
    kw.setdefault("lean_targets", [f"OpdaProofs.Props.{pid}"])
    kw.setdefault("props_files", [f"OpdaProofs/Props/{pid}.lean"])
    kw.setdefault("harnesses", [f"corr_{pid}"])
    kw["trusted_base"] = COMMON_TRUST + kw.get("trusted_base", [])
    kw.setdefault("assumptions", [])
    PROPS[pid] = kw
    TEXT[pid] = mod.TEXT
