"""Per-property configuration of ./check: Lean targets, property-theorem files, harnesses, trusted base."""

COMMON_TRUST = [
    "Lean 4.33 kernel; axioms propext, Classical.choice, Quot.sound only (audited per theorem on every run)",
    "Mathlib v4.33 as a library of proved facts",
    "the correspondence harness and its generators (sampling; distributions printed in the evidence)",
    "CPython float.as_integer_ratio / struct packing for the bit-exact line protocol",
]

PROPS = {}


def prop(pid, **kw):
    kw.setdefault("lean_targets", [f"OpdaProofs.Props.{pid}"])
    kw.setdefault("props_files", [f"OpdaProofs/Props/{pid}.lean"])
    kw.setdefault("harnesses", [f"corr_{pid}"])
    kw["trusted_base"] = COMMON_TRUST + kw.get("trusted_base", [])
    kw.setdefault("assumptions", [])
    PROPS[pid] = kw


prop("C03",
     trusted_base=["IEEE-754 rounding of numpy's cumsum/normalisation is not modelled: the theorems are about exact "
                   "arithmetic and the gap is measured against the property's own 1e-12"],
     assumptions=["observations are not NaN", "weights are non-negative and sum to 1 within 1e-10 (the constructor's own check)"])
