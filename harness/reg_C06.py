REG = dict(
    # Props/C06.lean imports OpdaGen.CertAll (section `shipped`: C06 o C19 for the regenerated table), so a build failure
    # caused by regenerated data is a broken proof obligation, not an infrastructure error
    certificates=True,
    uses_table=True,
    build_timeout=3000,
    harnesses=["corr_C06"],
    timeout=dict(quick=900, thorough=7200),
    trusted_base=[
        "the accuracy figures of the property (2.5e-5 on cdf, 1e-4*max(1,v) / 0.2*max(1,v) on (b-a)*pdf, monotonicity defect "
        "5e-5) are numerical facts, NOT theorems (the two noiseless-regime bounds 0.4*c*o/(b-a) and 0.83*sqrt(o/(b-a)) ARE theorems): they are "
        "decided on every run by the Float model <-> numpy correspondence (against drift) and by an mpmath quadrature of two "
        "algebraically different convolution integrals (against the Spec)",
        "the Spec is P[Z+E <= y] itself: the theorems are stated with its mixture form H(t) = int_0^1 Phi((t-x)/s) d(x^(c/2)) (law "
        "of Z+E after conditioning on Z), and the step to it IS a theorem (OpdaProofs/NoisyLaw.lean: independence => convolution, "
        "Tonelli, N(0,o^2)(-inf,x] = Phi(x/o), the law of Z as the image of uniform[0,1) under the quadratic part of a draw - with "
        "the noise-free class's cdf as its distribution function - and the substitution x = u^(2/c), for every a<b, c>=1, o>0, both "
        "shapes, every real y; likewise the mixture density is the Lebesgue density of the law of Z+E); from there the convolution "
        "identity H = Phi(point) + int_0^1 x^(c/2) dN is proved for every c >= 1. What remains a reading of the property, not a "
        "theorem: that 'Z ~ Quadratic(a,b,c,shape)' means the law with the class's own cdf (C05's model) and that Z, E are independent",
        "not proved: the accuracy of the Chebyshev fallback, of the downward step for k=-1/2 and of the normal regime, "
        "Phi(+-inf) in {0,1} at Float (both noiseless-regime constants are proved: 0.4*c*o/(b-a) for c>=2 by the Lipschitz "
        "constant times E|E|, 0.83*sqrt(o/(b-a)) for c=1 by Hoelder-1/2 times E sqrt|E| = (2o^2)^(1/4) Gamma(3/4)/sqrt(pi), "
        "with Gamma(3/4) <= 1.2345 from the log-convexity of Gamma between 9/2 and 5)",
        "IEEE-754 rounding in numpy/scipy (erf, exp, pow, cos) is not modelled; the comparator allows 1e-12 + 16 x the spread of "
        "the model under +-8-ulp jitter of every transcendental result and sends ill-conditioned cases (allowance above a tenth "
        "of the property's tolerance) to the oracle instead",
        "mpmath 1.3.0 (tanh-sinh quadrature, ncdf/npdf at 30 digits) as the independent Spec oracle; the two integrals agree to "
        "< 1e-20 on every cross-checked case (recorded in the evidence)",
        "tools/translate_table.py (JSON -> Lean bit patterns for the Float model, exact rationals for tableQ) for the shipped "
        "approximation table; the shipped-table theorems are about tableQ cast to R (tableR), the Float model reads the bit "
        "patterns of the same file (C19's correspondence ties both to the JSON by exact evaluation); tools/make_cert.py is "
        "NOT trusted (it proposes subdivisions; the kernel checks them)",
    ],
    assumptions=[
        "a <= b finite, c in 1..10, o >= 0 with o/(b-a) in {0} u [1e-9, 1e4], y in [a-9o, b+9o] u {+-inf} (the property's domain)",
        "for a=b, o>0 'to 1e-12 relative' is read as 1e-12*max(1, v) in units of o (0.5*(1+erf) cannot be relatively accurate in "
        "the far lower tail: cdf(a-9o) = 0 vs 1.1e-19)",
        "the pdf clause makes no claim for 0 < o < 1e-6 (b-a) and at the two support ends when o = 0",
    ],
)
TEXT = dict(
    level="Universal Lean theorems about the single polymorphic definition Opda.Noisy.cdf/pdf that the driver runs at Float: "
          "0<=cdf<=1 and pdf>=0 in every regime (for every ordered field and every choice of Phi/phi/pow/cos/table in the series "
          "regime; unconditionally at R), values when loc is infinite, a=b,o>0 => exactly Normal(a,o^2), a=b,o=0 => point mass; "
          "over R the code's upward recursion IS the Gaussian partial-moment recursion and the convolution identity "
          "int_0^1 Phi((t-x)/s) d(x^(c/2)) = Phi((t-1)/s) + int_0^1 x^(c/2) dN(t,s^2) holds for every c>=1, so for even c "
          "Model = Spec exactly (cdf both shapes, pdf), for odd c Model = sum over pieces of int p_i dN, within sup|x^k - p| of "
          "the Spec (cdf convex and concave; (b-a)*pdf for odd c>=3 within (c/2)*sup|x^k - p|); END TO END WITH THE SHIPPED TABLE "
          "(tableQ regenerated from _approximations.json on every run, cast to R; C19's 53 kernel-checked certificates discharge "
          "every hypothesis on the pieces): for every odd c in {1,3,5,7,9}, both shapes, every scale of the series regime and "
          "EVERY real y, |cdf - Spec| <= 1.02*max_error of the entry the scale o/(b-a) selects (uniform form: of the row), and "
          "for odd c in {3,..,9} |(b-a)*pdf - density| <= (c/2)*1.02*max_error of the selected entry of row c-2; for c in {7,9} "
          "this IS the property's 2.5e-5 (cdf) and for c=9 its 1e-4 (pdf), in exact real arithmetic; THE SPEC IS THE LAW OF THE SUM: "
          "for any independent Z ~ Quadratic(a,b,c,shape) (image of uniform[0,1) under the quadratic part of a draw; its distribution "
          "function is the noise-free class's cdf) and E ~ N(0,o^2) on any probability space, P[Z+E <= y] = H((y-a)/(b-a)) resp. "
          "1 - H((b-y)/(b-a)) (spec_is_law_of_sum: independence => convolution, Tonelli, Gaussian scaling, substitution x = u^(2/c); "
          "every a<b, c>=1, o>0, every real y), and the law of Z+E has Lebesgue density (mixture density)/(b-a); so for even c the "
          "model's cdf IS P[Z+E <= y] and its pdf IS a density of that law, for c in {7,9} |cdf - P[Z+E <= y]| <= 2.5e-5, and the "
          "noiseless-regime bounds are bounds on |cdf - P[Z+E <= y]|; in the noiseless regime the returned noise-free law is within 0.4*c*o/(b-a) (c>=2) resp. 0.83*sqrt(o/(b-a)) (c=1, both shapes, every real y) of its convolution with the "
          "noise - both constants of the property. The model is tied to the code on every run (Float, jitter-calibrated allowance, both sides of "
          "every switch point) and the property's own thresholds are evaluated against an mpmath convolution oracle.",
    note="Partial: the 2.5e-5 / 1e-4 / 0.2 / 5e-5 figures are numerical facts decided by "
         "correspondence + oracle on every run, not theorems in general (the proved bound for odd c with the shipped table is 1.02*max_error of the "
         "selected entry, 2.5e-7..8.1e-4: it implies the 2.5e-5 only for c in {7,9} and the small-scale entries of c in {1,3,5}; "
         "for the pdf (c/2)*1.02*max_error, implying 1e-4 for c=9); the pdf of c=1 (order -1/2) is not covered by a theorem; the Chebyshev fallback's and the normal regime's accuracy, the downward step for k=-1/2 and float rounding "
         "are compared only.",
)
