REG = dict(
    uses_table=True,
    harnesses=["corr_C06"],
    timeout=dict(quick=900, thorough=7200),
    trusted_base=[
        "the accuracy figures of the property (2.5e-5 on cdf, 1e-4*max(1,v) / 0.2*max(1,v) on (b-a)*pdf, monotonicity defect "
        "5e-5, the noiseless-regime bounds 0.4*c*o/(b-a) and 0.83*sqrt(o/(b-a))) are numerical facts, NOT theorems: they are "
        "decided on every run by the Float model <-> numpy correspondence (against drift) and by an mpmath quadrature of two "
        "algebraically different convolution integrals (against the Spec)",
        "the Spec is taken in its mixture form H(t) = int_0^1 Phi((t-x)/s) d(x^(c/2)) (law of Z+E after conditioning on Z; the "
        "independence/Fubini step to it is not formalised); from there the convolution identity H = Phi(point) + int_0^1 x^(c/2) dN "
        "IS proved for every c >= 1",
        "not proved: the accuracy of the Chebyshev fallback, of the downward step for k=-1/2 and of the normal regime, the "
        "noiseless-regime constant 0.83 for c=1 (0.4*c*o/(b-a) for c>=2 is proved), Phi(+-inf) in {0,1} at Float",
        "IEEE-754 rounding in numpy/scipy (erf, exp, pow, cos) is not modelled; the comparator allows 1e-12 + 16 x the spread of "
        "the model under +-8-ulp jitter of every transcendental result and sends ill-conditioned cases (allowance above a tenth "
        "of the property's tolerance) to the oracle instead",
        "mpmath 1.3.0 (tanh-sinh quadrature, ncdf/npdf at 30 digits) as the independent Spec oracle; the two integrals agree to "
        "< 1e-20 on every cross-checked case (recorded in the evidence)",
        "tools/translate_table.py (JSON -> Lean bit patterns) for the shipped approximation table the model reads",
    ],
    assumptions=[
        "a <= b finite, c in 1..10, o >= 0 with o/(b-a) in {0} u [1e-9, 1e4], y in [a-9o, b+9o] u {+-inf} (the property's domain)",
        "for a=b, o>0 'to 1e-12 relative' is read as 1e-12*max(1, v) in units of o (0.5*(1+erf) cannot be relatively accurate in "
        "the far lower tail: cdf(a-9o) = 0 vs 1.1e-19)",
        "the pdf clause makes no claim for 0 < o < 1e-6 (b-a) and at the two support ends when o = 0",
    ],
)
TEXT = dict(
    level="Universal Lean theorems about the single polymorphic definition Opda.Noisy.cdf/pdf that the driver runs at Float: "
          "0<=cdf<=1 and pdf>=0 in every regime (for every ordered field and every choice of Phi/phi/pow/cos/table in the series "
          "regime; unconditionally at R), values when loc is infinite, a=b,o>0 => exactly Normal(a,o^2), a=b,o=0 => point mass; "
          "over R the code's upward recursion IS the Gaussian partial-moment recursion and the convolution identity "
          "int_0^1 Phi((t-x)/s) d(x^(c/2)) = Phi((t-1)/s) + int_0^1 x^(c/2) dN(t,s^2) holds for every c>=1, so for even c "
          "Model = Spec exactly (cdf both shapes, pdf), for odd c Model = sum over pieces of int p_i dN, within sup|x^k - p| of "
          "the Spec; in the noiseless regime the returned noise-free law is within 0.4*c*o/(b-a) of its convolution with the "
          "noise (c>=2). The model is tied to the code on every run (Float, jitter-calibrated allowance, both sides of "
          "every switch point) and the property's own thresholds are evaluated against an mpmath convolution oracle.",
    note="Partial: the 2.5e-5 / 1e-4 / 0.2 / 5e-5 figures and the c=1 noiseless constant 0.83 are numerical facts decided by "
         "correspondence + oracle on every run, not theorems (the provable uniform bound for odd c is sup|x^k-p| <= 1.02*max_error, "
         "up to 8e-4); the Chebyshev fallback's and the normal regime's accuracy, the downward step for k=-1/2 and float rounding "
         "are compared only.",
)
