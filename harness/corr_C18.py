"""C18 correspondence: lagrange_interpolate, minimax_polynomial_coefficients, piecewise_polynomial_knots.

A  lagrange_interpolate(xs, ys) against the exact-rational model (`approx.lagr`: the code's first barycentric
   form with node fix-up AND the plain Lagrange sum, proved equal to Mathlib's `Lagrange.interpolate`):
   |impl - exact| <= 1e-13 * sum_j |y_j l_j(x)| with the right-hand side computed exactly, exact equality at the
   nodes, permuted node order, scalar / 1-D / 2-D / empty shapes.  Usage axes (gen_approx: near_points / history_plans /
   run_history): scalar queries in several containers next to nodes; several equally shaped queries on ONE interpolant with
   every returned object kept (no copy), one overwritten by the caller, the query array refilled in place - every value
   handed out is judged by the same clause against the exact interpolant; returned objects must not share memory.
B  minimax_polynomial_coefficients(f, a, b, n, transform=T, atol=atol): the *exact* polynomial with the returned
   coefficients against the callable of minimax_polynomial_approximation(f, a, b, n, atol=atol):
   <= 0.05*err + 10*atol*max(1,max|f|) at grid points and Chebyshev nodes (exact rational difference), and on ALL of
   [a,b] by the verified certificate `approx.cpoly` (theorem C18.coefficient_polynomial_close_everywhere) applied to the
   exact interpolant of the callable's node values; NumericalError / OptimizationError are allowed outcomes.
   The binomial re-expansion is tied directly: coefficients of the same call made in the transformed variable with
   transform=None, re-expanded exactly by the model (`approx.reexp`), must reproduce the returned ones.
C  piecewise_polynomial_knots(f, a, b, ns): len(ns)+1 increasing knots from a to b; per-piece errors (recomputed with
   the library's minimax_polynomial_approximation) within 1.5 % of each other, reported error within 1.5 % of their
   maximum and <= the worst error of equally spaced knots; each piece's lower bound additionally certified by the
   verified alternation checker where err_i - atol - 1e-13 > 0; OptimizationError allowed.
"""
import os
import warnings
from fractions import Fraction as Fr

import numpy as np

import common as C
import gen_approx as G

REL = Fr(1, 10 ** 13)
SUBNORMAL = 2.2250738585072014e-308     # x - x_j below this is a subnormal number: 1/(x - x_j) overflows


# ------------------------------------------------------------------ A: lagrange_interpolate

def violate(rep, **kw):
    """rep.violate, keeping one replay per known-finding key so that findings cannot crowd out other violations"""
    key = kw.get("finding_key")
    if key is not None:
        if rep.hist.get("finding=" + key):
            rep.count("finding=" + key)
            return
        rep.count("finding=" + key)
    rep.violate(**kw)


def gen_nodes(rng, m):
    style = rng.choice(["uniform", "cluster", "cheb", "equi", "mixed", "ints"])
    scale = 10.0 ** rng.uniform(-3, 3) if rng.random() < 0.5 else 1.0
    shift = rng.choice([0.0, 0.0, rng.uniform(-5, 5), 100.0, -1e3])
    xs = set()
    tries = 0
    while len(xs) < m and tries < 10000:
        tries += 1
        if style == "uniform":
            x = rng.uniform(-1, 1)
        elif style == "cluster":
            c = rng.choice([-0.7, 0.0, 0.3, 0.9])
            x = c + rng.choice([1e-6, 1e-4, 1e-2]) * rng.uniform(-1, 1)
        elif style == "cheb":
            x = float(np.cos(np.pi * (len(xs) + 0.5) / m))
        elif style == "equi":
            x = -1.0 + 2.0 * len(xs) / max(1, m - 1)
        elif style == "ints":
            x = float(rng.randint(-40, 40))
        else:
            x = rng.choice([rng.uniform(-1, 1), 0.5 + 1e-5 * rng.uniform(-1, 1), float(rng.randint(-3, 3))])
        x = float(x * scale + shift)
        if np.isfinite(x):
            xs.add(x)
    xs = list(xs)
    if style != "cluster":
        # keep the relative spacing >= 1e-9 of the spread so that the weights stay finite (distinct, finite nodes)
        pass
    rng.shuffle(xs)
    return xs[:m], style


def gen_values(rng, xs):
    style = rng.choice(["uniform", "poly", "big", "zeros", "const", "alt"])
    m = len(xs)
    if style == "uniform":
        ys = [rng.uniform(-1, 1) for _ in xs]
    elif style == "poly":
        cs = [rng.uniform(-1, 1) for _ in range(rng.randint(1, 4))]
        ys = [float(sum(c * x ** i for i, c in enumerate(cs))) for x in xs]
    elif style == "big":
        ys = [rng.uniform(-1, 1) * 10.0 ** rng.randint(-8, 8) for _ in xs]
    elif style == "zeros":
        ys = [rng.choice([0.0, rng.uniform(-1, 1)]) for _ in xs]
    elif style == "const":
        ys = [2.5] * m
    else:
        ys = [(-1.0) ** i for i in range(m)]
    ys = [y if np.isfinite(y) else 1.0 for y in ys]
    return ys, style


def gen_queries(rng, xs, k):
    lo, hi = min(xs), max(xs)
    w = (hi - lo) if hi > lo else max(1.0, abs(lo))
    qs = list(xs)                                    # every node
    for x in rng.sample(xs, min(len(xs), 4)):
        qs += [float(np.nextafter(x, np.inf)), float(np.nextafter(x, -np.inf))]
    qs += [rng.uniform(lo, hi) for _ in range(k)]
    qs += [lo - 0.05 * w * rng.random(), hi + 0.05 * w * rng.random(), 0.5 * (lo + hi)]
    return [float(q) for q in qs if np.isfinite(q)]


def misjudged(val, x, ev, la, node_val):
    """the property's clause for one returned value: exact at a node, within 1e-13*sum_j|y_j l_j(x)| of the exact rational
    interpolant elsewhere.  None if it holds, else (clause, expected, tolerance)."""
    val = float(val)
    if x in node_val:
        if not (val == node_val[x]) or Fr(node_val[x]) != ev:
            return "interpolant is not exact at a node", node_val[x], 0.0
        return None
    if not (val == val) or abs(val) == float("inf") or abs(Fr(val) - ev) > REL * la:
        return ("interpolant differs from the exact rational interpolant by more than 1e-13*sum_j|y_j l_j(x)|",
                float(ev), float(REL * la))
    return None


def usage_queries(xs, inp):
    """how the returned callable is used (derived from the case only, so that a replay regenerates it): scalar queries at a
    ladder of small distances from a few nodes, and call sequences whose results are kept across calls"""
    hrng = G.case_rng("C18-usage", inp)
    lo, hi = min(xs), max(xs)
    w = (hi - lo) if hi > lo else max(1.0, abs(lo))
    nodes = hrng.sample(list(xs), min(len(xs), 3))
    near = G.near_points(nodes, w)
    near = hrng.sample(near, min(len(near), 18))
    pool = ([t[0] for t in hrng.sample(near, min(len(near), 6))] + hrng.sample(list(xs), min(len(xs), 2))
            + [hrng.uniform(lo - 0.05 * w, hi + 0.05 * w) for _ in range(6)])
    pool = [float(x) for x in pool if np.isfinite(x)]
    ints = [x for x in xs if float(x).is_integer() and abs(x) < 2.0 ** 53][:2]
    return near, ints, pool, G.history_plans(hrng, pool)


def usage_probe(rep, p, near, ints, plans):
    """evaluate p as a user would: scalars one at a time, and sequences whose results are kept; observations only"""
    scal = []
    for x, _i, d in near:
        rep.count("lagr_scalar_query_distance_from_node=1e%d" % int(np.floor(np.log10(abs(d)) + 1e-9)))
        for kind in G.SCALAR_KINDS:
            rep.count("lagr_scalar_query_container=" + kind)
            v = p(G.make_query(kind, (), [x]))
            scal.append((x, kind, np.shape(v), float(v) if np.shape(v) == () else float("nan")))
    for x in ints:
        rep.count("lagr_scalar_query_container=pyint(at an integral node)")
        v = p(int(x))
        scal.append((x, "pyint", np.shape(v), float(v) if np.shape(v) == () else float("nan")))
    hist = []
    for plan in plans:
        rep.count("lagr_history(results kept across calls)=%s/%d-D" % (plan["container"], len(plan["shape"])))
        obs, problems = G.run_history(p, plan)
        hist.append((plan, obs, problems))
    return scal, hist


def part_lagrange(rep, rng, drv, tier, A, cases=None):
    sizes = [1, 1, 2, 2, 3, 3, 4, 5, 6, 7, 8, 10, 12, 15, 19, 25]
    n_sets = 120 if tier == "quick" else 2500
    reqs, meta = [], []
    if cases is None:
        cases = []
        for si in range(n_sets):
            m = rng.choice(sizes)
            xs, sx = gen_nodes(rng, m)
            m = len(xs)
            ys, sy = gen_values(rng, xs)
            qs = gen_queries(rng, xs, 4 if m > 12 else 8)
            if all(float(x).is_integer() for x in xs):
                # integral nodes: two integral non-node queries just outside the node range (judged in every container)
                qs = list(qs) + [q for q in (float(min(xs) - 3), float(max(xs) + 2)) if q not in xs]
            perm = list(range(m))
            rng.shuffle(perm)
            cases.append((xs, ys, qs, perm, sx, sy))
    for xs, ys, qs, perm, sx, sy in cases:
        m = len(xs)
        inp = dict(xs=[C.fhex(x) for x in xs], ys=[C.fhex(y) for y in ys])
        rep.count("lagr_nodes=%d" % m if m < 10 else "lagr_nodes=%d-%d" % (5 * (m // 5), 5 * (m // 5) + 4))
        rep.count("lagr_node_style=" + sx)
        rep.count("lagr_value_style=" + sy)
        with warnings.catch_warnings():
            warnings.simplefilter("ignore")
            try:
                p = A.lagrange_interpolate(xs, ys)
                pp = A.lagrange_interpolate([xs[i] for i in perm], [ys[i] for i in perm])
                impl = np.asarray(p(np.array(qs)), dtype=float)
                implp = np.asarray(pp(np.array(qs)), dtype=float)
                shapes_ok, why = check_shapes(p, qs)
            except Exception as e:  # noqa: BLE001
                violate(rep, what="lagrange_interpolate raised on distinct finite nodes", error=repr(e), input=inp,
                            call="opda.approximation.lagrange_interpolate(xs, ys)")
                continue
            # the same nodes in another container: integral nodes as a list of Python ints / an integer ndarray of any width that
            # holds them (differences and their products are the library's arithmetic); queries: the same float array, and the
            # integral queries as a list of Python ints
            implc, labelc = None, None
            if all(float(x).is_integer() and abs(x) < 2 ** 62 for x in xs):
                conts = C.number_containers(list(xs), C.rng_for("C18:nodes:" + inp["xs"][0] + str(m), 0), allow_float32=False, k=1)
                if conts:
                    labelc, obj = conts[0]
                    rep.count("lagr_node_container=" + labelc)
                    try:
                        pc = A.lagrange_interpolate(obj, ys)
                        implc = np.asarray(pc(np.array(qs)), dtype=float)
                        qi = [q for q in qs if float(q).is_integer()]
                        impli = dict(zip(qi, np.asarray(pc([int(q) for q in qi]), dtype=float))) if qi else {}
                    except Exception as e:  # noqa: BLE001
                        violate(rep, what=f"lagrange_interpolate raised on integral nodes given as {labelc} (the same numbers as floats are accepted)",
                                error=repr(e), input=dict(inp, node_container=labelc), call="opda.approximation.lagrange_interpolate(xs, ys)")
                        implc, labelc = None, None
            # usage axes: scalar queries next to nodes; results kept across calls of the same callable (after the array
            # evaluations above, so that those are what they always were)
            near, ints, pool, plans = usage_queries(xs, inp)
            try:
                scal, hist = usage_probe(rep, p, near, ints, plans)
            except Exception as e:  # noqa: BLE001
                violate(rep, what="the interpolant raised on a scalar query / a repeated query of the same shape",
                        error=repr(e), input=inp, call="p = opda.approximation.lagrange_interpolate(xs, ys); p(q)")
                scal, hist = [], []
        if not shapes_ok:
            violate(rep, what="lagrange_interpolate result is not shape-preserving: " + why, input=inp,
                        call="opda.approximation.lagrange_interpolate(xs, ys)(q)")
        n_main = len(qs)
        qs = list(qs)
        for x in [t[0] for t in near] + pool:
            if x not in qs[n_main:]:
                qs.append(x)
        reqs.append(("approx.lagr", "%s %s %s" % (C.flist(xs), C.flist(ys), C.flist(qs))))
        meta.append((inp, xs, ys, qs, impl, implp, perm, n_main, scal, hist, (implc, impli, labelc) if implc is not None else None))
    replies = drv.run(reqs)
    for (inp, xs, ys, qs, impl, implp, perm, n_main, scal, hist, contv), r in zip(meta, replies):
        if r is None:
            rep.disagree(op="lagr", note="model rejected a valid node set", input=inp)
            continue
        node_val = dict(zip(xs, ys))
        judge_usage(rep, inp, xs, qs, r, node_val, scal, hist)
        for j, x in enumerate(qs[:n_main]):
            ev, ls, la = (C.parse_ext(t) for t in r[3 * j:3 * j + 3])
            if ev != ls:
                rep.disagree(op="lagr", note="model: barycentric form and Lagrange sum differ (theorem broken?)", input=inp,
                             x=C.fhex(x))
            variants = [("", impl[j]), ("perm", implp[j])]
            if contv is not None:
                variants.append(("nodes given as " + contv[2], contv[0][j]))
                if x in contv[1]:
                    variants.append(("nodes given as " + contv[2] + ", query as a list of Python ints", contv[1][x]))
            for tag, val in variants:
                val = float(val)
                rep.case(("lagr" + tag, tuple(inp["xs"]), tuple(inp["ys"]), x),
                         sample=dict(op="lagrange_interpolate" + ("(permuted nodes)" if tag else ""), xs=xs, ys=ys, x=x,
                                     exact=float(ev), impl=val, tol=float(REL * la)))
                if x in node_val:
                    if not (val == node_val[x]) or Fr(node_val[x]) != ev:
                        violate(rep, what="interpolant is not exact at a node" + ((" (permuted node order)" if tag == "perm" else f" ({tag})") if tag else ""),
                                    input=dict(inp, x=C.fhex(x), perm=perm if tag else None),
                                    expected=node_val[x], observed=val,
                                    call="opda.approximation.lagrange_interpolate(xs, ys)(x)")
                elif not (val == val) or abs(val) == float("inf") or abs(Fr(val) - ev) > REL * la:
                    gap = min(abs(x - xj) for xj in xs)
                    violate(rep, finding_key="C18-lagrange-subnormal-gap" if 0.0 < gap < SUBNORMAL else None,
                                what="interpolant differs from the exact rational interpolant by more than "
                                     "1e-13*sum_j|y_j l_j(x)|" + ((" (permuted node order)" if tag == "perm" else f" ({tag})") if tag else ""),
                                input=dict(inp, x=C.fhex(x), perm=perm if tag == "perm" else None, node_container=contv[2] if (contv and tag.startswith("nodes")) else None), expected=float(ev), observed=val,
                                tolerance=float(REL * la), call="opda.approximation.lagrange_interpolate(xs, ys)(x)")


def judge_usage(rep, inp, xs, qs, r, node_val, scal, hist):
    """verdicts for the usage axes, by the same clause and the same exact oracle as the array evaluations"""
    exact = {}
    for j, x in enumerate(qs):
        exact[x] = (C.parse_ext(r[3 * j]), C.parse_ext(r[3 * j + 2]))
    for x in xs:
        exact.setdefault(x, (Fr(node_val[x]), None))

    def key_of(x):
        gap = min(abs(x - xj) for xj in xs)
        return "C18-lagrange-subnormal-gap" if 0.0 < gap < SUBNORMAL else None
    reported = 0
    for x, kind, shp, val in scal:
        rep.case(("lagr-scalar", tuple(inp["xs"]), tuple(inp["ys"]), x, kind))
        ev, la = exact[x]
        bad = ("shape-preserving on scalars: a scalar query gave shape %r" % (shp,), None, None) if shp != () else \
            misjudged(val, x, ev, la, node_val)
        if bad is not None and reported < 1:
            reported += 1
            violate(rep, finding_key=key_of(x), what=bad[0] + " (scalar query, container: %s)" % kind,
                    input=dict(inp, x=C.fhex(x), container=kind), x_float=x, expected=bad[1], observed=val, tolerance=bad[2],
                    nearest_node_distance=min(abs(x - xj) for xj in xs),
                    call="p = opda.approximation.lagrange_interpolate(xs, ys); p(%s)"
                         % {"pyfloat": "float(x)", "pyint": "int(x)", "np.float64": "np.float64(x)"}.get(kind, "np.array(x)"))
    def call_of(plan):
        return ("p = opda.approximation.lagrange_interpolate(xs, ys); R = [p(q) for q in queries]  # every q a %s of shape "
                "%r; look at R only afterwards" % (plan["container"], tuple(plan["shape"])))
    # every kept value against the exact interpolant (a few replays per case; every value is judged and counted)
    for plan, obs, problems in hist:
        done = reported >= 3
        for o in obs:
            for x, val in zip(o["xs"], o["values"]):
                rep.case(("lagr-history", tuple(inp["xs"]), tuple(inp["ys"]), str(plan), o["stage"], o["call"], x))
                rep.count("lagr_history_values_judged")
                ev, la = exact[x]
                bad = misjudged(val, x, ev, la, node_val)
                if bad is not None:
                    rep.count("lagr_history_values_wrong")
                if bad is not None and not done:
                    done = True
                    reported += 1
                    violate(rep, finding_key=key_of(x),
                            what=bad[0] + " — the value returned by call %d of a sequence of equally shaped queries on one "
                                          "interpolant, %s" % (o["call"], o["stage"]),
                            input=dict(inp, x=C.fhex(x), history=G.plan_repr(plan), call_index=o["call"], stage=o["stage"]),
                            x_float=x, expected=bad[1], observed=val, tolerance=bad[2], call=call_of(plan))
    # shapes in repeated calls; returned objects that share memory (with each other or with the caller's query)
    structural = 0
    for plan, obs, problems in hist:
        for kind, detail in problems:
            rep.case(("lagr-history-" + kind, tuple(inp["xs"]), tuple(inp["ys"]), str(plan)))
            rep.count("lagr_history_problem=" + kind)
            if structural >= 1:
                continue
            structural += 1
            violate(rep, what=("interpolant is not shape-preserving in a repeated call: " if kind == "shape" else
                               "values returned by the interpolant are not independent values (" + kind + "): ") + detail,
                    input=dict(inp, history=G.plan_repr(plan)), call=call_of(plan))


def check_shapes(p, qs):
    s = p(qs[0])
    if np.shape(s) != ():
        return False, "scalar in, shape %r out" % (np.shape(s),)
    v = p(np.array(qs))
    if np.shape(v) != (len(qs),):
        return False, "1-D in, shape %r out" % (np.shape(v),)
    if not (float(s) == float(v[0]) or (s != s and v[0] != v[0])):
        return False, "scalar result differs from the array entry"
    if len(qs) >= 4:
        m2 = p(np.array(qs[:4]).reshape(2, 2))
        if np.shape(m2) != (2, 2) or not np.array_equal(np.ravel(m2), v[:4], equal_nan=True):
            return False, "2-D query is not the entrywise result"
    e = p(np.array([]))
    if np.shape(e) != (0,):
        return False, "empty in, shape %r out" % (np.shape(e),)
    lst = p(list(qs[:3]))
    if np.shape(lst) != (len(qs[:3]),):
        return False, "list in, shape %r out" % (np.shape(lst),)
    return True, ""


# ------------------------------------------------------------------ B: minimax_polynomial_coefficients

def coef_inp(spec, a, b, n, atol, T):
    return dict(f=spec, a=C.fhex(a), b=C.fhex(b), n=int(n), atol=None if atol is None else C.fhex(atol),
                transform=None if T is None else [C.fhex(T[0]), C.fhex(T[1])])


def coef_snippet(inp):
    T = inp["transform"]
    return ("f=%s; opda.approximation.minimax_polynomial_coefficients(f, %r, %r, %d, transform=%r, atol=%r)"
            % (inp["f"], C.unhex(inp["a"]), C.unhex(inp["b"]), inp["n"],
               None if T is None else (C.unhex(T[0]), C.unhex(T[1])),
               None if inp["atol"] is None else C.unhex(inp["atol"])))


def horner_fr(cs, x):
    v = Fr(0)
    for c in reversed(cs):
        v = v * x + c
    return v


def transformed_f(f, a, b, T):
    """the function the library approximates internally for transform T (same float operations)"""
    ta, tb = np.float64(T[0]), np.float64(T[1])
    a64, b64 = np.float64(a), np.float64(b)
    m = (b64 - a64) / (tb - ta)

    def g(xs, f=f, m=m, a64=a64, ta=ta):
        return f.np(a64 + m * (xs - ta))
    return g, m


def predict_return(rep, reqs, meta, A, E, f, a, b, n, atol, T, inp):
    g, m = transformed_f(f, a, b, T)
    ta, tb = float(T[0]), float(T[1])
    with warnings.catch_warnings():
        warnings.simplefilter("ignore")
        try:
            c0, err0 = A.minimax_polynomial_coefficients(g, ta, tb, n, transform=None, atol=atol)
        except (E.NumericalError, E.OptimizationError, TypeError):
            rep.skip("reexpansion_prediction_untransformed_call_raises")
            return
    c0 = np.asarray(c0, dtype=float)
    if not np.all(np.isfinite(c0)):
        return
    ks = np.arange(n + 1)
    ts = ta + (tb - ta) * 0.5 * (1 - np.cos(np.pi * (ks + 0.5) / (n + 1)))
    nodes = [float(x) for x in (np.float64(a) + m * (ts - np.float64(ta)))]
    reqs.append(("approx.reexp", "%s %s %s %s %s" % (C.flist(c0), C.fhex(ta), C.fhex(tb), C.fhex(a), C.fhex(b))))
    meta.append(("predict", inp, dict(c0=c0, err0=float(err0), at=G.atol_value(atol), nodes=nodes)))


def part_coeffs(rep, rng, drv, tier, A, E, cases=None):
    n_cases = 60 if tier == "quick" else 1200
    if cases is None:
        cases = []
        degs = [0, 1, 2, 3, 4, 5, 6, 7, 8, 10, 12, 15] if tier == "quick" else list(range(16))
        for _ in range(n_cases):
            spec, a, b = G.gen_function(rng, None, kinds=("pow", "pow", "exp", "log", "rec", "poly"))
            n = G.gen_degree(rng, spec, a, b, degs)
            if spec["kind"] == "poly" and len(spec["par"]) - 1 > n + 1:
                n = min(15, len(spec["par"]) - 2)
            atol = G.gen_atol(rng)
            ts = [(-1.0, 1.0), (0.0, 1.0), None] + ([(a, 1.0)] if a < 1.0 else [])
            cases.append((spec, a, b, n, atol, rng.choice(ts)))
    reqs, meta = [], []
    for spec, a, b, n, atol, T in cases:
        f = G.make_f(spec)
        inp = coef_inp(spec, a, b, n, atol, T)
        at = G.atol_value(atol)
        tname = "None" if T is None else ("(a,1)" if T[0] == a and T != (0.0, 1.0) and T != (-1.0, 1.0) else str(T))
        rep.count("coef_transform=" + tname)
        rep.count("coef_f=" + spec["kind"])
        rep.count("coef_n=%d" % n if n < 8 else "coef_n=8-15")
        with warnings.catch_warnings():
            warnings.simplefilter("ignore")
            try:
                cf, err = A.minimax_polynomial_coefficients(f.np, a, b, n, transform=T, atol=atol)
            except E.NumericalError:
                rep.count("coef_outcome=NumericalError(allowed)")
                rep.case(("coef-raise", str(inp)), nontrivial=False)
                if T is not None:
                    predict_return(rep, reqs, meta, A, E, f, a, b, n, atol, T, inp)
                continue
            except E.OptimizationError:
                rep.count("coef_outcome=OptimizationError(allowed)")
                rep.case(("coef-raise", str(inp)), nontrivial=False)
                continue
            except Exception as e:  # noqa: BLE001
                key = "C18-transform-None-TypeError" if (T is None and isinstance(e, TypeError)) else None
                violate(rep, what="minimax_polynomial_coefficients raised %s" % type(e).__name__, error=repr(e), input=inp,
                            call=coef_snippet(inp), finding_key=key)
                continue
            try:
                p, err_p = A.minimax_polynomial_approximation(f.np, a, b, n, atol=atol)
                rs, _ys, _e = A.remez(f.np, a, b, n, atol=atol)
            except E.OptimizationError:
                rep.skip("coef_reference_minimax_polynomial_raises_OptimizationError")
                continue
        rep.count("coef_outcome=returned")
        cf = np.asarray(cf, dtype=float)
        err = float(err)
        if cf.shape != (n + 1,) or not np.all(np.isfinite(cf)) or not (err >= 0):
            violate(rep, what="coefficients are not n+1 finite floats with a non-negative error", input=inp, observed=cf,
                        call=coef_snippet(inp))
            continue
        grid = np.linspace(a, b, 4001)
        maxf = float(np.max(np.abs(f.np(grid))))
        B = Fr(err) * Fr(5, 100) + 10 * Fr(at) * max(Fr(1), Fr(maxf))
        cq = [Fr(float(c)) for c in cf]
        # candidates: float evaluation on the dense grid, verdict: exact rational difference at grid points + Chebyshev nodes
        pg = np.asarray(p(grid), dtype=float)
        approx = np.zeros_like(grid)
        for c in cf[::-1]:
            approx = approx * grid + c
        worst = np.argsort(np.abs(approx - pg))[-6:]
        cheb = a + (b - a) * 0.5 * (1 - np.cos(np.pi * (np.arange(n + 1) + 0.5) / (n + 1)))
        pts = [float(grid[i]) for i in worst] + [float(x) for x in cheb] + [float(x) for x in grid[::200]]
        pvals = np.asarray(p(np.array(pts)), dtype=float)
        bad = None
        for x, pvx in zip(pts, pvals):
            d = abs(horner_fr(cq, Fr(x)) - Fr(float(pvx)))
            if d > B and (bad is None or d > bad[1]):
                bad = (x, d, float(pvx))
        rep.case(("coef", str(inp)), sample=dict(op="minimax_polynomial_coefficients", input=inp, err=err, bound=float(B)))
        if bad is not None:
            violate(rep, what="coefficient polynomial differs from the minimax polynomial of the same call by more than "
                             "0.05*err+10*atol*max(1,max|f|)", input=dict(inp, x=C.fhex(bad[0])), observed=float(bad[1]),
                        expected="<= %r" % float(B), coefficients=cf, minimax_polynomial_at_x=bad[2], call=coef_snippet(inp))
        # continuum certificate on the exact interpolant of the callable's node values
        rs = np.asarray(rs, dtype=float)
        if np.all(np.diff(rs) > 0):
            pv = np.asarray(p(rs[:-1]), dtype=float)
            prec = G.cert_precision(n + 1, a, b, B)
            reqs.append(("approx.cpoly", "%s %s %s %s %s %s %d %d" % (
                C.flist(rs[:-1]), C.flist(pv), C.flist(cf), C.fhex(a), C.fhex(b), G.frs(B), 24, prec)))
            meta.append(("cert", inp, None))
        # direct tie of the re-expansion arithmetic
        if T is not None:
            ta, tb = float(T[0]), float(T[1])
            g, _m = transformed_f(f, a, b, T)
            with warnings.catch_warnings():
                warnings.simplefilter("ignore")
                try:
                    c0, err0 = A.minimax_polynomial_coefficients(g, ta, tb, n, transform=None, atol=atol)
                    c0 = np.asarray(c0, dtype=float)
                    if float(err0) == err and np.all(np.isfinite(c0)):
                        reqs.append(("approx.reexp", "%s %s %s %s %s" % (C.flist(c0), C.fhex(ta), C.fhex(tb), C.fhex(a), C.fhex(b))))
                        meta.append(("reexp", inp, dict(cf=cf, c0=c0)))
                        rep.count("coef_reexpansion_tie=checked")
                    else:
                        rep.skip("reexpansion_tie_internal_run_not_bit_identical")
                except (E.NumericalError, E.OptimizationError, TypeError):
                    rep.skip("reexpansion_tie_untransformed_call_raises")
    replies = drv.run(reqs)
    for (kind, inp, d), r in zip(meta, replies):
        if r is None:
            rep.disagree(op=kind, note="model rejected the implementation's output", input=inp, call=coef_snippet(inp))
            continue
        if kind == "cert":
            rep.case(("coef-cert", str(inp)))
            rep.count("coef_difference=certified_for_all_x" if r[0] == "1" else "coef_difference=grid_only(certificate not found)")
        elif kind == "predict":
            # the call in the transformed variable returned; in exact arithmetic the re-expanded coefficients represent the
            # same polynomial (theorem C18.reexpansion_code_arithmetic), so the a-posteriori test of the transformed call can
            # only fail through floating-point cancellation in sum_i a'_i x^i, which is bounded by 1e-11 * sum_i scale_i |x|^i
            n1 = len(d["c0"])
            scale = [C.parse_ext(t) for t in r[n1:2 * n1]]
            cond = max(sum(sc * abs(Fr(float(x))) ** i for i, sc in enumerate(scale)) for x in d["nodes"])
            rep.case(("reexp-predict", str(inp)))
            if Fr(1, 10 ** 11) * cond <= Fr(1, 100) * Fr(d["err0"]) + Fr(d["at"]):
                rep.disagree(op="reexp", note="NumericalError raised although the same call in the transformed variable returns "
                                              "and the model's exact re-expansion is well conditioned (re-expansion arithmetic "
                                              "does not match the model)", input=inp, call=coef_snippet(inp),
                             condition=float(cond), err=d["err0"])
            else:
                rep.count("coef_NumericalError_explained_by_cancellation")
        else:
            n1 = len(d["cf"])
            exact = [C.parse_ext(t) for t in r[:n1]]
            scale = [C.parse_ext(t) for t in r[n1:2 * n1]]
            rep.case(("reexp", str(inp)))
            for i in range(n1):
                if abs(Fr(float(d["cf"][i])) - exact[i]) > Fr(1, 10 ** 12) * scale[i] + Fr(1, 10 ** 300):
                    rep.disagree(op="reexp", note="returned coefficients are not the binomial re-expansion "
                                                  "a'_i = sum_j C(j,i) b^(j-i) c^j a_j of the coefficients in the transformed "
                                                  "variable (model of the transform arithmetic)", input=inp, index=i,
                                 model=float(exact[i]), impl=float(d["cf"][i]), call=coef_snippet(inp))
                    break


# ------------------------------------------------------------------ C: piecewise_polynomial_knots

def knots_inp(spec, a, b, ns, atol):
    return dict(f=spec, a=C.fhex(a), b=C.fhex(b), ns=[int(n) for n in ns], atol=None if atol is None else C.fhex(atol))


def knots_snippet(inp):
    return ("f=%s; opda.approximation.piecewise_polynomial_knots(f, %r, %r, %r, atol=%r)"
            % (inp["f"], C.unhex(inp["a"]), C.unhex(inp["b"]), inp["ns"],
               None if inp["atol"] is None else C.unhex(inp["atol"])))


def _knots_call(job):
    """one knot search in a forked worker (the searches are independent and dominate the wall time of this check): returns the outcome only;
    every verdict is made in the parent on exactly the values the call returned"""
    spec, a, b, ns, atol = job
    from opda import approximation as A_
    from opda import exceptions as E_
    with warnings.catch_warnings():
        warnings.simplefilter("ignore")
        try:
            knots, err = A_.piecewise_polynomial_knots(G.make_f(spec).np, a, b, ns, **({} if atol == "default" else dict(atol=atol)))
            return ("ok", [float(k) for k in np.asarray(knots, dtype=float)], float(err), list(np.shape(knots)))
        except E_.OptimizationError:
            return ("opt",)
        except Exception as e:  # noqa: BLE001
            return ("exc", type(e).__name__, repr(e), str(e))


def _knots_sequence(jobs):
    """several knot searches in ONE process, one after the other, each with a function object that exists only for the duration of its
    call (`for k in ...: piecewise_polynomial_knots(lambda xs: xs**k, a, b, ns)`): the objects die between the calls, so the interpreter
    hands the next one the same address; same a, b, ns throughout.  Every search must be about the function it was given."""
    import gc
    out = []
    for job in jobs:
        out.append(_knots_call(job))      # (make_f builds the callable inside the call; nothing of it survives the return)
        gc.collect()
    return out


def _knots_pool(jobs):
    import multiprocessing as mp_
    if len(jobs) <= 1:
        return [_knots_call(j) for j in jobs]
    try:
        with mp_.get_context("fork").Pool(min(len(jobs), max(1, min(8, (os.cpu_count() or 2) - 1)))) as pool:
            return pool.map(_knots_call, jobs, chunksize=1)
    except Exception:  # noqa: BLE001   (no fork / no pool: same calls inline)
        return [_knots_call(j) for j in jobs]


def part_knots(rep, rng, drv, tier, A, E, cases=None):
    replay_free = cases is None
    if cases is None:
        cases = []
        n_cases = 4 if tier == "quick" else 24
        for ci in range(n_cases):
            kind = rng.choice(["pow", "exp"])
            spec, a, b = G.gen_function(rng, None, kinds=(kind,))
            if tier == "quick":
                ln = rng.choice([1, 2, 2, 3])
                ns = [rng.randint(0, 3) for _ in range(ln)]
                if b - a < 0.05:
                    b = a + rng.uniform(0.05, 2.0)
                    if kind == "pow":
                        b = min(b, 10.0)
            else:
                ln = rng.randint(1, 6)
                ns = [rng.randint(0, 6) for _ in range(ln)]
            cases.append((spec, a, b, ns, None if rng.random() < 0.7 else G.log_uniform(rng, 1e-13, 1e-9)))
        # small error levels, every run (the stop test of the search is RELATIVE: it must work at error levels of 1e-6 ... 1e-9 just as it
        # does at 1e-2; an absolute term hidden in it, e.g. the default atol of np.isclose, only shows here)
        low = [(G.spec("exp", 1.0), 0.0, 1.0, [5, 5]), (G.spec("exp", 1.0), 0.0, 1.0, [4, 4]),
               (G.spec("pow", 2.5), 1.0, 2.0, [4, 5]), (G.spec("exp", -0.5), -1.0, 1.0, [5, 6])]
        for spec_, a_, b_, ns_ in (low[:2] + [low[2 + rng.randrange(2)]] if tier == "quick" else low):
            rep.count("knots_small_error_level(<=1e-6)")
            cases.append((spec_, a_, b_, ns_, None))
        # explicit atol that is a small but not negligible fraction (1 % .. 10 %) of the levelled error (the docstring suggests raising
        # atol on numerical trouble): the error level is estimated by a default-atol call on the same problem first
        level_jobs = []
        for ci in range(6 if tier == "quick" else 40):
            kind = rng.choice(["pow", "exp"])
            spec, a, b = G.gen_function(rng, None, kinds=(kind,))
            if b - a < 0.05:
                b = a + rng.uniform(0.05, 2.0)
                if kind == "pow":
                    b = min(b, 10.0)
            ns = [rng.randint(0, 3) for _ in range(rng.choice([2, 2, 3]))]
            level_jobs.append((spec, a, b, ns, rng.uniform(-2.0, -1.0)))
        for (spec, a, b, ns, ex), r0 in zip(level_jobs, _knots_pool([(sp_, a_, b_, ns_, "default") for sp_, a_, b_, ns_, _ in level_jobs])):
            if r0[0] != "ok" or not r0[2] > 1e-9:       # (a raising search is judged in its own right by the default-atol cases above)
                continue
            rep.count("knots_atol=1..10%_of_the_levelled_error")
            cases.append((spec, a, b, ns, r0[2] * 10.0 ** ex))
    reqs, meta = [], []
    outcomes = _knots_pool([(sp_, a_, b_, ns_, at_) for sp_, a_, b_, ns_, at_ in cases])
    if replay_free:
        # functions that die between calls (one worker process, sequential, same interval and degrees): x^2, x^3, x^2 again, exp(2x), x^2.5
        seq = [(G.spec("pow", 2.0), 0.0, 1.0, [1, 1], None), (G.spec("pow", 3.0), 0.0, 1.0, [1, 1], None), (G.spec("pow", 2.0), 0.0, 1.0, [1, 1], None),
               (G.spec("exp", 2.0), 0.0, 1.0, [1, 1], None), (G.spec("pow", 2.5), 0.0, 1.0, [1, 1], None)]
        import multiprocessing as mp_
        try:
            with mp_.get_context("fork").Pool(1) as pool_:
                seq_out = pool_.apply(_knots_sequence, (seq,))
        except Exception:  # noqa: BLE001
            seq_out = _knots_sequence(seq)
        for _ in seq:
            rep.count("knots_sequence_of_short_lived_functions(same a, b, ns)")
        cases = list(cases) + seq
        outcomes = list(outcomes) + list(seq_out)
    for (spec, a, b, ns, atol), oc in zip(cases, outcomes):
        f = G.make_f(spec)
        inp = knots_inp(spec, a, b, ns, atol)
        at = G.atol_value(atol)
        rep.count("knots_pieces=%d" % len(ns))
        rep.count("knots_f=" + spec["kind"])
        if oc[0] == "opt":
            rep.count("knots_outcome=OptimizationError(allowed)")
            rep.case(("knots-raise", str(inp)), nontrivial=False)
            continue
        if oc[0] == "exc":
            # remez on a zero-width piece produces a non-finite h, which lagrange_interpolate rejects
            leak = oc[1] == "ValueError" and "must contain only finite floats" in oc[3]
            violate(rep, what="piecewise_polynomial_knots raised %s" % oc[1], error=oc[2], input=inp,
                        call=knots_snippet(inp),
                        finding_key="C18-knots-zero-width-piece-ValueError" if leak else None)
            continue
        rep.count("knots_outcome=returned")
        knots = np.asarray(oc[1], dtype=float).reshape(oc[3])
        err = float(oc[2])
        rep.case(("knots", str(inp)), sample=dict(op="piecewise_polynomial_knots", input=inp, knots=knots, err=err))
        if knots.shape != (len(ns) + 1,) or knots[0] != a or knots[-1] != b or not np.all(np.diff(knots) > 0):
            repeated = knots.shape == (len(ns) + 1,) and bool(np.all(np.diff(knots) >= 0)) and bool(np.any(np.diff(knots) == 0))
            violate(rep, what="knots are not len(ns)+1 increasing points from a to b", input=inp, observed=knots,
                        call=knots_snippet(inp), finding_key="C18-knots-zero-width-piece" if repeated else None)
            continue
        errs, eq_errs = [], []
        eq = a + (b - a) * np.arange(len(ns) + 1) / len(ns)
        ok = True
        with warnings.catch_warnings():
            warnings.simplefilter("ignore")
            try:
                for i, n in enumerate(ns):
                    p, e_i = A.minimax_polynomial_approximation(f.np, knots[i], knots[i + 1], n)
                    errs.append(float(e_i))
                    rs, _y, _e = A.remez(f.np, knots[i], knots[i + 1], n)
                    rs = np.asarray(rs, dtype=float)
                    ethr = Fr(float(e_i)) - Fr(G.DEFAULT_ATOL) - G.SLACK
                    if ethr > 0 and np.all(np.diff(rs) > 0):
                        flo, fhi = G.enclose(f, rs)
                        ym = [(lo + hi) / 2 for lo, hi in zip(flo, fhi)]
                        reqs.append(("approx.altlev", "%d %s %s %s %s %s %s %s -" % (
                            n, C.fhex(knots[i]), C.fhex(knots[i + 1]), C.flist(rs), G.frlist(ym), G.frlist(flo),
                            G.frlist(fhi), C.fhex(e_i))))
                        meta.append(("piece", inp, i))
                    else:
                        rep.count("knots_piece_lower=vacuous_or_degenerate")
                for i, n in enumerate(ns):
                    eq_errs.append(float(A.remez(f.np, eq[i], eq[i + 1], n, atol=atol)[2]))
            except E.OptimizationError:
                ok = False
                rep.skip("knots_recomputation_of_piece_errors_raises_OptimizationError")
        if not ok:
            continue
        emax, emin = max(errs), min(errs)
        if not (emin > 0 and (emax - emin) / emin < 0.015):
            violate(rep, what="per-piece minimax errors differ by 1.5 % or more", input=inp, knots=knots, piece_errors=errs,
                        call=knots_snippet(inp))
        if not (abs(err - emax) <= 0.015 * emax):
            violate(rep, what="reported error is not within 1.5 % of the largest piece error", input=inp, knots=knots,
                        piece_errors=errs, observed=err, call=knots_snippet(inp))
        if not (err <= max(eq_errs)):
            violate(rep, what="reported error exceeds the worst error of equally spaced knots", input=inp, observed=err,
                        expected="<= %r" % max(eq_errs), call=knots_snippet(inp))
    replies = drv.run(reqs)
    for (kind, inp, i), r in zip(meta, replies):
        if r is None:
            rep.disagree(op="alt", note="model rejected the implementation's output", input=inp)
        elif r[0] == "1":
            rep.count("knots_piece_lower=certified_by_alternation")
        else:
            rep.count("knots_piece_lower=not_certified")
        rep.case(("knots-piece", str(inp), i))


def run(seed, tier, replay=None):
    from opda import approximation as A, exceptions as E
    rep = C.Report("C18", seed, tier)
    rng = C.rng_for("C18", seed)
    drv = C.Driver(os.environ.get("OPDA_DRIVER", C.DRIVER))
    if replay is not None:
        v = replay.get("violation", replay)
        inp = v["input"]
        atol = None if inp.get("atol") is None else C.unhex(inp["atol"])
        if "xs" in inp:
            xs = [C.unhex(h) for h in inp["xs"]]
            ys = [C.unhex(h) for h in inp["ys"]]
            perm = inp.get("perm") or list(range(len(xs)))
            qs = ([C.unhex(inp["x"])] if inp.get("x") else []) + xs
            part_lagrange(rep, rng, drv, tier, A, cases=[(xs, ys, qs, perm, "replay", "replay")])
        elif "ns" in inp:
            part_knots(rep, rng, drv, tier, A, E, cases=[(inp["f"], C.unhex(inp["a"]), C.unhex(inp["b"]), inp["ns"], atol)])
        else:
            T = inp["transform"]
            part_coeffs(rep, rng, drv, tier, A, E, cases=[(inp["f"], C.unhex(inp["a"]), C.unhex(inp["b"]), inp["n"], atol,
                                                          None if T is None else (C.unhex(T[0]), C.unhex(T[1])))])
    else:
        part_lagrange(rep, rng, drv, tier, A)
        part_coeffs(rep, rng, drv, tier, A, E)
        part_knots(rep, rng, drv, tier, A, E)
    return rep.result(
        rule="A: node sets of 1-25 distinct finite points (uniform / clustered to 1e-6 / Chebyshev / equispaced / integer / "
             "mixed, scaled and shifted, shuffled), values (random, polynomial, 1e-8..1e8, zeros, constant, alternating), "
             "queries = every node, float neighbours of nodes, interior, slight extrapolation; each compared for the original "
             "and a permuted node order; the interpolant is also used as a caller would: scalar queries (Python float, numpy "
             "scalar, 0-d array; Python int at integral nodes) at distances {1e-10..1e-6}*spread and {1e-9,1e-8} on both sides "
             "of up to 3 nodes, and sequences of equally shaped queries (scalars, lists, 1-/2-/3-D arrays) on one interpolant "
             "whose results are kept without copying, one overwritten in place by the caller, the query array refilled in "
             "place - every value handed out is judged by the same clause against the exact interpolant, and returned objects "
             "must not share memory.  B: (f, a, b, n<=15, atol, transform in {(-1,1),(0,1),(a,1),None}) from the C17 "
             "family.  C: f in {x^k, exp}, degree tuples (quick: 1-3 pieces, degrees 0-3; thorough: 1-6 pieces, degrees 0-6). "
             "distinct = distinct (check, input, query).",
        extra=dict(driver_lines=drv.lines))


if __name__ == "__main__":
    C.main(run)
