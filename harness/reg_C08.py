REG = dict(
    trusted_base=[
        "IEEE-754 rounding inside numpy/scipy is not modelled: the theorems are about exact real arithmetic (Real.rpow, Real.Gamma); the gap "
        "is measured on every run against the property's 1e-6 / 2e-5 / 1e-8 (b-a) / 100 max(atol, 1e-6 scale)",
        "scipy.special.loggamma vs the model's Stirling logGammaF (compared to 1e-11 relative + 4x the +-8-ulp jitter spread; observed <= 0.2% of that)",
        "noisy quantile curve: |F(qtc) - level| <= 2e-5 is a theorem at exact real arithmetic for even c <= 100 (every regime) and for c = 9, "
        "c = 5 with o/(b-a) < 1/5, c = 3 with o/(b-a) < 1/50 (series regime, shipped table); for c = 1, c = 7 and the remaining scales of "
        "c = 3, 5 C07's robust-bisection bound (which needs no monotonicity of the approximated cdf) is a theorem too but exceeds 2e-5 there, "
        "so the clause is measured on every run; model comparison reuses the noisy.ppf op (ties within the jitter allowance are skipped)",
        "integrated average curve: the accuracy clause is NOT a theorem (C08.stop_rule_not_a_bound); it is decided on every run by adaptive "
        "Gauss-Legendre quadrature of the class's own cdf; the model of the documented loop is followed for at most 2^15 integrand evaluations",
        "fork + RLIMIT_AS + wall-clock timeout as the observation of 'returns without unbounded memory growth'",
    ],
    assumptions=["a <= b as in C05, c in 1..10, o >= 0 with o/(b-a) in {0} u [1e-9,1e3], q in [0,1], n in [1,1000] real (scalar or array), "
                 "atol None or in [1e-6 (b-a+12o), 1e-3]",
                 "a call that does not return within 60 s / 1 GiB of additional address space counts as not returning"],
    timeout=dict(quick=1500, thorough=12000),
)
TEXT = dict(
    level="Universal Lean theorems: noiseless quantile curve hits the level q^(1/n) resp. 1-(1-q)^(1/n) exactly (every real n>0), minimize=None "
          "is minimize=convex; E[max of n draws of U^(2/c)] = n/(n+2/c) and E[min] = Gamma(n+1)Gamma(1+2/c)/Gamma(n+1+2/c) for real n>0 (Beta "
          "integral), the four code branches are these composed with the affine map, the curve is monotone in n in the direction of "
          "optimisation and stays in [a,b]; noisy quantile curve = ppf at the level, the level lies strictly inside (0,1) for q in (0,1) and real n>0, and "
          "|F(quantile_tuning_curve(n,q,minimize)) - level| <= 2e-5 UNCONDITIONALLY in exact real arithmetic for even c <= 100 (all regimes, "
          "noisy_qtc_hits_level_even) and for c = 9 at every scale, c = 5 with o/(b-a) < 1/5, c = 3 with o/(b-a) < 1/50 of the series regime "
          "(noisy_qtc_hits_level_odd_partial; both shapes, both directions, minimize=None), otherwise C07's robust-bisection bound, which is larger than 2e-5 (clause measured there); "
          "the integration loop's state is exactly the composite trapezoid sum on 2^i panels, what the REPAIRED loop (fix commits 867c66b, fd4085d) returns is lo + T_i at a round i>3 "
          "with the Richardson estimate err <= atol (`_partial`), where E = lo + int(1-G) on [lo,hi]; NEGATIVE result decided by the kernel on the loop "
          "model at Rat: a continuous CDF for which the rule stops at round 4 with error 30000 atol (so the accuracy clause cannot be a "
          "theorem); the point mass a=b, o=0 returns a at round 4 (navg_point_mass_returns; F5, found here, is repaired). Correspondence: both classes against the Float models, Spec oracle "
          "(mpmath closed forms, adaptive quadrature of the class's own cdf) at the property's tolerances on every run, every integrated "
          "call under a memory/time guard.",
    note="F4 (premature convergence of the trapezoid rule when 0 lies inside [a-6o,b+6o]) and F5 (a=b, o=0 never returned) were found by this "
         "check and are repaired in /repo (867c66b, fd4085d; known_findings.json `fixed:`). Recorded finding on the unchanged tree: the stop rule of the "
         "integrated noisy curve can still be fooled by cancellation at the first permitted round (keyed, explicit predicate; what stop_rule_not_a_bound "
         "proves possible). Not proved: the accuracy of the integrated curve (false for the documented algorithm in general), the "
         "noisy quantile clause for c = 1, c = 7, c = 5 at scales >= 0.2, c = 3 at scales >= 0.02 (series regime; C07's bound exceeds the "
         "tolerance there) and under IEEE rounding.",
)
