REG = dict(
    trusted_base=[
        "enclosure of transcendental f(r_i) (x^k, exp, log, 1/(x+d)) by mpmath at 50 digits, widened by 1e-40 relative; "
        "polynomial f is evaluated exactly in Q",
        "the Python callable handed to the library computes the mathematical f up to floating-point rounding",
        "upper bound max|f-p| for non-algebraic f: numerical (the property's 40,000-point grid plus local refinement), "
        "not proved; for polynomial f and x^(m+1/2) it is proved for all x by the verified certificate when the "
        "certificate search succeeds (counted per run)",
        "IEEE-754 rounding inside numpy is not modelled; convergence of the floating-point exchange iteration is not "
        "proved (OptimizationError is an allowed outcome)",
        "monotonicity of the reported err in n and err <= atol on exact fits are compared, not proved (the corresponding "
        "facts about the true minimax error are theorems)",
    ],
    assumptions=["f is in the sign-regular family of the property; a < b finite; n in 0..20; atol None or in [1e-13,1e-6]"],
    timeout=dict(quick=900, thorough=14400),
)
TEXT = dict(
    level="Verified sufficient-condition checkers run on the code's actual output (floats read as exact rationals): the de la "
          "Vallee-Poussin alternation checker on the returned reference (soundness theorem: accepted => for every real f inside "
          "the enclosures no polynomial of degree <= n has uniform error below err-atol-1e-13 on [a,b]; built on dvp and the "
          "levelled-error theorem, for the very term the driver evaluates) and the adaptive Taylor-shift range checker "
          "(accepted => |f-P| <= err+atol+1e-11*max|f| at every real x of [a,b], for polynomial f and x^(m+1/2)); universal "
          "theorems on the minimax error (monotone in degree and interval, zero on exact fits). Tied to the code on every run "
          "by a seeded differential harness over the property's family.",
    note="Proved: what an accepted certificate implies (continuum quantifiers over f-in-enclosure, competing polynomials, x). "
         "Compared, not proved: mpmath enclosures of transcendental values, the grid upper bound for non-algebraic f, float "
         "rounding, convergence of the exchange iteration, monotonicity/exact-fit of the reported err.",
)
