REG = dict(
    trusted_base=[
        "enclosure of transcendental f(r_i) (x^k, exp, log, 1/(x+d)) by mpmath at 50 digits, widened by 1e-40 relative; "
        "polynomial f is evaluated exactly in Q",
        "the Python callable handed to the library computes the mathematical f up to floating-point rounding",
        "upper bound max|f-p| for non-algebraic f: numerical (the property's 40,000-point grid plus local refinement), "
        "not proved; for polynomial f and x^(m+1/2) it is proved for all x by the verified certificate when the "
        "certificate search succeeds (counted per run)",
        "IEEE-754 rounding inside numpy is not modelled; convergence of the floating-point exchange iteration within its "
        "25 rounds is not proved (OptimizationError is an allowed outcome), nor that the golden-section searches find the "
        "maxima of |f-p| on their brackets; what IS proved about the exchange in exact arithmetic: the levelling "
        "denominator is non-zero on every strictly increasing reference, and a new ordered reference on which the old "
        "levelled polynomial has sign-alternating errors >= |h_old| has |h_new| >= |h_old| (strictly if one point improved)",
        "monotonicity of the reported err in n and err <= atol on exact fits are compared, not proved (the corresponding "
        "facts about the true minimax error are theorems)",
    ],
    assumptions=["f is in the sign-regular family of the property; a < b finite; n in 0..20; atol None or in [1e-13,1e-6]"],
    timeout=dict(quick=900, thorough=14400),
)
TEXT = dict(
    level="Verified sufficient-condition checkers run on the code's actual output (floats read as exact rationals): the de la "
          "Vallee-Poussin alternation checker on the returned reference (soundness theorem: accepted => for every real f inside "
          "the enclosures no polynomial of degree <= n has uniform error below err-atol-1e-13 on [a,b]; built on dvp and the "
          "levelled-error theorem, for the very term the driver evaluates; the levelled-error theorem needs no hypothesis "
          "beyond a strictly increasing reference, its denominator being proved non-zero there) and the adaptive Taylor-shift range checker "
          "(accepted => |f-P| <= err+atol+1e-11*max|f| at every real x of [a,b], for polynomial f and x^(m+1/2)); universal "
          "theorems on the minimax error (monotone in degree and interval, zero on exact fits) and on the exchange step "
          "(weighted-mean representation h = sum lambda_i (-1)^i (f(x_i)-q(x_i)) for every q of degree <= n; alternating "
          "errors >= |h_old| on the new reference => |h_new| >= |h_old|; |h| <= E_n(f;[a,b]) <= sup|f-p|). Tied to the code on every run "
          "by a seeded differential harness over the property's family.",
    note="Proved: what an accepted certificate implies (continuum quantifiers over f-in-enclosure, competing polynomials, x); "
         "in exact arithmetic over any ordered field: levelled error exactly (-1)^i h with a denominator that cannot vanish on "
         "an ordered reference, sign (-1)^(n+1-i) of the barycentric weights of the n+2 reference points, the weighted-mean "
         "representation of h, exchange monotonicity (the code's conditions 1 and 2 imply |h_new| >= |h_old|, strict if a "
         "point strictly improved), the sandwich |h| <= E_n <= sup|f-p|. "
         "Compared, not proved: mpmath enclosures of transcendental values, the grid upper bound for non-algebraic f, float "
         "rounding, convergence of the exchange iteration within 25 rounds, that golden-section search finds the maxima of "
         "|f-p| (condition 2 is a hypothesis of the theorem, not a proved property of the search), monotonicity/exact-fit of "
         "the reported err.",
)
