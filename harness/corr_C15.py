"""C15 correspondence: beta_equal_tailed_interval / beta_highest_density_interval and their coverage functions.

For positive integers (a,b) = (i, n+1-i) the Beta(a,b) distribution function is the binomial tail polynomial
(theorem Opda.Props.C15.beta_cdf_eq_tail), exact in Q.  The implementation's float outputs are handed, as exact
rationals, to the Lean driver:

* `beta.check_et`   0<=x<=y<=1, |mass - c| <= 1e-9, |lower tail - upper tail| <= 1e-9 (exact);
* `beta.check_hdi`  0<=x,y<=1, x<=y+1e-12, |mass - c| <= 1e-9 (exact) and the *verified optimality certificate*
                    (theorem Opda.Props.C15.hdi_certificate_sound: unimodal density + a level t with the density <= t
                    outside, >= t inside ==> no interval of at least the same mass is shorter by more than 1e-9);
                    when the checker's own search finds no certificate, an untrusted Python search proposes the level
                    set of the right mass (`beta.check_hdi_cert`), which either certifies or is itself an exactly
                    verified shorter interval (the replay);
* `beta.etcov`      exact 2|1/2 - G(x)|;  `beta.hdcov`: exact bracket of G(y*) - G(x), f(y*) = f(x) (60 exact bisection
                    steps), the coverage of the smallest highest-density interval containing x.

Tolerances are the property's: masses/tails 1e-9, x<=y 1e-12, length 1e-9, coverage functions / inverse relation 2e-6.
"""
import math
import warnings
from fractions import Fraction as Fr

import numpy as np

import common as C

GRID = 10 ** 40
TOL_MASS = (1, 10 ** 9)
TOL_ORDER = (1, 10 ** 12)
TOL_LEN = (1, 10 ** 9)
W0 = (1, 2 ** 37)
COV_TOL = Fr(2, 10 ** 6)
MONO_SLACK = 1e-12
HDI_FINDING = "C15-hdi-not-shortest-within-1e-9-at-coverage-near-1"

QUICK_NS = [1, 2, 3, 4, 5, 7, 10, 13, 20, 31, 50, 100, 199, 300]
LARGE_NS = [1100, 1500, 2000]
LARGE_COVS = [0.5, 0.9, 0.99]
COVS = [0.0, 1e-9, 1e-6, 1e-3, 0.1, 0.5, 0.9, 0.95, 0.99, 1 - 1e-3, 1 - 1e-6, 1 - 1e-9, 1.0]
# coverages next to 1 asked for BY THEMSELVES (scalar calls / arrays holding nothing else): the number of bisection steps of the
# highest-density interval is taken from the widest bracket of the whole call, so a near-1 coverage that shares an array with
# a moderate one is resolved far below the stopping tolerance and says nothing about what a caller asking for it alone gets
NEAR1_COVS = [1 - 1e-9, 1 - 1e-8, 1 - 1e-7, 1 - 1e-6, 1 - 1e-5]
NEAR1_PAIRS = [(2, 2), (2, 3), (3, 2), (2, 10), (10, 2), (3, 7), (7, 3), (5, 5), (2, 50), (50, 2), (3, 100), (20, 20), (1, 5), (5, 1)]
NEAR1_LARGE = [(2, 1999), (1999, 2), (1000, 1001), (2, 999), (500, 1501)]


def g(tok):
    return Fr(int(tok), GRID)


_KEYED = {}


def violate(rep, **kw):
    """rep.violate, but a violation carrying a finding_key is stored at most 3 times per key (the rest are only counted),
    so that repeats of a recorded finding never crowd a new, un-keyed violation out of the report's 25 slots."""
    key = kw.get("finding_key")
    if key is not None:
        _KEYED[key] = _KEYED.get(key, 0) + 1
        if _KEYED[key] > 3:
            rep.count("repeats_of_" + key)
            return
    rep.violate(**kw)


def safe_float(q):
    try:
        return float(q)
    except OverflowError:
        return float("inf") if q > 0 else float("-inf")


HDI_FINDING_MAX_ONE_MINUS_C = 1e-8
HDI_FINDING_CAP = 1.5e-8


def hdi_finding_key(a, b, c, shorter_by):
    """the bisection stops when the bracket of the lower end point is below atol=1e-10; when the coverage is within 1e-8 of 1
    and the density is linear at an end of the support (a = 2 or b = 2) one end point sits within ~1e-9 of that end, where the
    density changes by a factor within 1e-10, and the error of that end point is amplified into the other one by the density
    ratio: for a = 2 the excess is (atol^2 / 2) / x*, x* the true lower end point (1.02e-8 for (2, 1999, 1-1e-9)).

    Measured on the unchanged tree (scalar and array calls, 8560 (a, b, c) with n = a+b-1 in 2..2000, i in {1..5, n-3..n,
    n/4, n/2, random}, 1-c in {1e-9, 2e-9, 5e-9, 1e-8, 1e-7, 1e-6, random 1e-9..1e-5}): 30 intervals not shortest within
    1e-9, all with min(a, b) = 2 and 1-c <= 5e-9, the largest excess 7.77e-9 at (2, 1999, 1-1e-9), then 3.8e-9 (2, 999),
    2.6e-9 (2, 1499), <= 1.3e-9 for (19..59, 2).  The key covers exactly that region with a cap of 1.5e-8 (twice the largest
    measured, 1.5 x the analytic bound at the end of the property's range); anything larger, or anywhere else, is a different
    defect and stays an un-keyed violation."""
    if not (float(shorter_by) <= HDI_FINDING_CAP):
        return None
    return HDI_FINDING if (min(a, b) == 2 and c < 1.0 and 1.0 - c <= HDI_FINDING_MAX_ONE_MINUS_C) else None


# ---------------------------------------------------------------- exact helpers (untrusted proposals only)

def tail_exact(n, k, p):
    """P[Bin(n,p) >= k] for a Fraction p, by the same Horner pass as the Lean model (Python ints)"""
    if k > n:
        return Fr(0)
    a, d = p.numerator, p.denominator
    b = d - a
    c = math.comb(n, k)
    ap = a ** k
    acc = 0
    for j in range(k, n + 1):
        acc = acc * b + c * ap
        c = c * (n - j) // (j + 1)
        ap = ap * a
    return Fr(acc, d ** n)


def mass_exact(a, b, x, y):
    n = a + b - 1
    return tail_exact(n, a, Fr(y)) - tail_exact(n, a, Fr(x))


def logf(a, b, s):
    if s <= 0.0:
        return 0.0 if a == 1 else -math.inf
    if s >= 1.0:
        return 0.0 if b == 1 else -math.inf
    return (a - 1) * math.log(s) + (b - 1) * math.log1p(-s)


def crossing(a, b, l, lo, hi, increasing):
    """float s in [lo,hi] with logf(s) ~ l, logf monotone on [lo,hi]"""
    for _ in range(200):
        mid = 0.5 * (lo + hi)
        if mid == lo or mid == hi:
            break
        if (logf(a, b, mid) < l) == increasing:
            lo = mid
        else:
            hi = mid
    return 0.5 * (lo + hi)


def dlogf(a, b, s):
    s = min(max(s, 1e-300), 1 - 1e-16)
    return (a - 1) / s - (b - 1) / (1 - s)


def propose_level_set(a, b, M):
    """untrusted: (x1, x2, y2, y1, s) around the level set {f >= f(s)} whose exact mass is ~ M"""
    m = (a - 1) / (a + b - 2)
    l_hi = logf(a, b, m)
    l_lo = l_hi - 1.0
    ends = lambda l: (0.0 if a == 1 else crossing(a, b, l, 0.0, m, True), 1.0 if b == 1 else crossing(a, b, l, m, 1.0, False))
    # phase 1 (large parameters only, where an exact mass costs tens of ms): float masses from the regularised incomplete
    # beta function narrow the level to a few ulps; phase 2 then needs only a handful of exact evaluations
    Mf = float(M)
    if a + b > 400:
        from scipy import special
        fmass = lambda l: (lambda e: float(special.betainc(a, b, e[1]) - special.betainc(a, b, e[0])))(ends(l))
        while fmass(l_lo) < Mf and l_lo > -1e7:
            l_lo = l_hi - 2.0 * (l_hi - l_lo)
        for _ in range(90):
            l = 0.5 * (l_lo + l_hi)
            if l == l_lo or l == l_hi:
                break
            if fmass(l) >= Mf:
                l_lo = l
            else:
                l_hi = l
        w = max(abs(l_lo), 1.0) * 1e-13
        l_lo, l_hi = l_lo - w, l_hi + w
    # phase 2: exact masses (Python integers); widen downwards until the level set has at least the mass M, then bisect
    step = max(l_hi - l_lo, 1e-13)
    while True:
        xl, yr = ends(l_lo)
        if mass_exact(a, b, xl, yr) >= M or l_lo < -1e7:
            break
        l_lo -= step
        step *= 2.0
    for _ in range(90):
        l = 0.5 * (l_lo + l_hi)
        if l == l_lo or l == l_hi or (l_hi - l_lo) <= 4e-16 * max(abs(l_lo), 1.0):
            break
        xl, yr = ends(l)
        if mass_exact(a, b, xl, yr) >= M:
            l_lo = l
        else:
            l_hi = l
    xl, yr = ends(l_lo)
    # bracket each crossing: wide enough that the density certainly passes the level (>= 1e-11 in log-density and
    # >= 4 ulps), which costs (1 - f(x1)/t) * (x2 - x1) ~ 1e-11 * width in the certified length
    dx = 0.0 if a == 1 else max(min(1e-11 / max(abs(dlogf(a, b, xl)), 1e-300), 1e-3 * xl), 4 * math.ulp(xl))
    dy = 0.0 if b == 1 else max(min(1e-11 / max(abs(dlogf(a, b, yr)), 1e-300), 1e-3 * (1.0 - yr)), 4 * math.ulp(yr))
    mlo, mhi = np.nextafter(m, 0.0), np.nextafter(m, 1.0)
    x1, x2 = max(xl - dx, 0.0), min(xl + dx, mlo)
    y2, y1 = max(yr - dy, mhi), min(yr + dy, 1.0)
    if a == 1:
        x1 = x2 = 0.0
    if b == 1:
        y1 = y2 = 1.0
    s = xl if a > 1 else yr
    return float(x1), float(min(max(x2, x1), mlo) if a > 1 else 0.0), float(max(min(y2, y1), mhi) if b > 1 else 1.0), float(y1), float(s), float(xl), float(yr)


# ---------------------------------------------------------------- case generation

def ab_pairs(rng, tier):
    ns = list(QUICK_NS)
    if tier == "quick":
        ns += [rng.randint(6, 250) for _ in range(2)]
    else:
        ns += [rng.randint(2, 300) for _ in range(40)] + [500, 1000]
    pairs = []
    for n in ns:
        iis = {1, 2, 3, (n + 3) // 4, (n + 1) // 2, n // 2 + 1, n - 2, n - 1, n, rng.randint(1, n)}
        if n > 500:
            iis = {1, 2, (n + 1) // 2, n - 1, n}
        for i in sorted(k for k in iis if 1 <= k <= n):
            pairs.append((i, n + 1 - i))
    # the upper part of the quantifier's range (n up to 2000), where float densities x^(a-1)(1-x)^(b-1) underflow: every
    # tier, exact like the rest but with three coverages and a small x grid per pair (see LARGE_COVS)
    for n in LARGE_NS + ([rng.randint(1001, 2000)] if tier != "quick" else []):
        iis = {1, (n + 3) // 4, (n + 1) // 2, (3 * n) // 4, n}
        if tier != "quick":
            iis |= {2, n - 1, rng.randint(1, n)}
        for i in sorted(iis):
            pairs.append((i, n + 1 - i))
    return pairs


def x_grid(rng, a, b, util):
    """query points for the coverage functions: 0, 1, mode, median, end points of a few intervals, tiny/huge, random"""
    with warnings.catch_warnings():
        warnings.simplefilter("ignore")
        med = float(util.beta_equal_tailed_interval(a, b, 0.0)[0])
    sd = math.sqrt(a * b / ((a + b) ** 2 * (a + b + 1)))
    if a + b - 1 > 1000:
        # large n: each exact evaluation costs 0.05-0.2 s, keep the grid small but on both sides of the mode
        xs = {0.0, 1.0, med, (a - 1) / (a + b - 2)}
        xs.update(min(1.0, max(0.0, med + s * abs(rng.gauss(0, 1)) * sd)) for s in (-1, 1))
        return sorted(xs), med
    xs = {0.0, 1.0, med, 1e-12, 1 - 1e-12, 0.5, 1e-3, 1 - 1e-3}
    if a + b > 2:
        mode = (a - 1) / (a + b - 2)
        xs.update([mode, float(np.nextafter(mode, 0)), float(np.nextafter(mode, 1))])
    xs.update(rng.random() for _ in range(4))
    xs.update(min(1.0, max(0.0, med + rng.gauss(0, 1) * sd)) for _ in range(6))
    return sorted(xs), med


# ---------------------------------------------------------------- the run


def kept_results(rep, name, fn, args1, args2, inp):
    """results kept across calls: what a call returned belongs to the caller -- a second call (same broadcast shape, other values) must
    not change the arrays returned by the first (`lo1, hi1 = f(a, b, c1); lo2, hi2 = f(a, b, c2); use(lo1)`)"""
    try:
        r1 = fn(*args1)
        r1 = r1 if isinstance(r1, tuple) else (r1,)
        snap = [np.array(x, copy=True) for x in r1]
        fn(*args2)
    except Exception:  # noqa: BLE001   (raising on valid arguments is judged where the call is made for its values)
        return
    rep.count("results_kept_across_calls:" + name)
    rep.case(("kept", name, str(inp)[:80]), nontrivial=False)
    for k, (x, s0) in enumerate(zip(r1, snap)):
        if not np.array_equal(np.asarray(x), s0, equal_nan=True):
            rep.violate(what=f"{name}: the array returned by one call changed when the function was called again with arguments of the same shape "
                             "(a returned array belongs to the caller)",
                        input=dict(inp, returned_index=k), expected=[float(v) for v in np.ravel(s0)[:6]], observed=[float(v) for v in np.ravel(x)[:6]],
                        call=f"r1 = {name}(...); r2 = {name}(... other values, same shape ...); r1")
            return

def run(seed, tier, replay=None):
    _KEYED.clear()
    from opda import utils as util
    # a replay regenerates the run it came from (same seed, same tier), so that the recorded input recurs
    if replay is not None:
        seed, tier = int(replay.get("seed", seed)), replay.get("tier", tier)
    rep = C.Report("C15", seed, tier)
    rng = C.rng_for("C15", seed)
    drv = C.Driver()
    pairs = ab_pairs(rng, tier)
    reqs, meta = [], []

    def add(op, args, **kw):
        reqs.append((op, args))
        meta.append(dict(op=op, **kw))

    tol = lambda t: f"{t[0]} {t[1]}"
    with warnings.catch_warnings():
        warnings.simplefilter("ignore")
        big_i = -1
        for (a, b) in pairs:
            n = a + b - 1
            rep.count("n=%s" % (n if n <= 5 else "6-50" if n <= 50 else "51-300" if n <= 300 else "301-1000" if n <= 1000 else "1001-2000"))
            rep.count("shape=" + ("a=b=1" if a == b == 1 else "a=1" if a == 1 else "b=1" if b == 1 else "interior mode"))
            covs = list(COVS) + [rng.random(), 1 - 10 ** rng.uniform(-9, -1), 10 ** rng.uniform(-9, -1)]
            if n > 1000 and tier == "quick":
                covs = list(LARGE_COVS)
            elif n > 1000:
                covs = list(LARGE_COVS) + [0.0, 1e-9, 1 - 1e-9, 1.0, rng.random()]
            covs = [float(c) for c in covs]
            ca = np.array(covs)
            # ---- equal-tailed interval (one broadcast call over the coverages)
            try:
                ex, ey = util.beta_equal_tailed_interval(a, b, ca)
            except Exception as e:
                rep.violate(what="beta_equal_tailed_interval raised on valid arguments", input=dict(a=a, b=b, coverage=covs),
                            error=repr(e), call="beta_equal_tailed_interval")
                continue
            if np.shape(ex) != ca.shape or np.shape(ey) != ca.shape:
                rep.violate(what="beta_equal_tailed_interval does not broadcast", input=dict(a=a, b=b, coverage=covs),
                            call="beta_equal_tailed_interval")
                continue
            for c, x, y in zip(covs, ex, ey):
                x, y = float(x), float(y)
                call = f"beta_equal_tailed_interval({a}, {b}, {c!r})"
                inp = dict(a=a, b=b, coverage=c, coverage_hex=C.fhex(c))
                if not (0.0 <= x <= 1.0 and 0.0 <= y <= 1.0):
                    rep.violate(what="equal-tailed end points outside [0,1] (or nan)", input=inp, observed=[x, y], call=call)
                    continue
                add("beta.check_et", f"{a} {b} {C.fhex(c)} {C.fhex(x)} {C.fhex(y)} {tol(TOL_MASS)}", kind="et", inp=inp,
                    call=call, x=x, y=y, c=c)
                for which, e in (("lower", x), ("upper", y)):
                    cv = float(util.beta_equal_tailed_coverage(a, b, e))
                    rep.case(("et_inverse", a, b, c, which))
                    if not abs(Fr(cv) - Fr(c)) <= COV_TOL:
                        rep.violate(what="beta_equal_tailed_coverage(end point of the interval of coverage c) differs from c by more than 2e-6",
                                    input=dict(inp, end=which, end_point=e), expected=c, observed=cv,
                                    call=f"beta_equal_tailed_coverage({a}, {b}, {call}[{0 if which == 'lower' else 1}])")
            # ---- coverage functions on a grid
            xs, med = x_grid(rng, a, b, util)
            xa = np.array(xs)
            ecov = np.asarray(util.beta_equal_tailed_coverage(a, b, xa), dtype=float)
            if ecov.shape != xa.shape:
                rep.violate(what="beta_equal_tailed_coverage does not broadcast", input=dict(a=a, b=b, x=xs), call="beta_equal_tailed_coverage")
            else:
                add("beta.etcov", f"{a} {b} {C.flist(xs)}", kind="etcov", a=a, b=b, xs=xs, impl=ecov, med=med)
                add("beta.cdf", f"{a} {b} {C.flist(xs)}", kind="etside", a=a, b=b, xs=xs, impl=ecov)
            if a == 1 and b == 1:
                rep.skip("highest_density_variants_for_a=b=1(excluded by the property)")
                continue
            # ---- highest-density interval
            try:
                hx, hy = util.beta_highest_density_interval(a, b, ca)
            except Exception as e:
                rep.violate(what="beta_highest_density_interval raised on valid arguments", input=dict(a=a, b=b, coverage=covs),
                            error=repr(e), call="beta_highest_density_interval")
                continue
            if np.shape(hx) != ca.shape or np.shape(hy) != ca.shape:
                rep.violate(what="beta_highest_density_interval does not broadcast", input=dict(a=a, b=b, coverage=covs),
                            call="beta_highest_density_interval")
                continue
            if len(covs) >= 2:
                other = np.clip(1.0 - 0.5 * ca, 0.0, 1.0)
                kept_results(rep, "beta_highest_density_interval", util.beta_highest_density_interval, (a, b, ca), (a, b, other), dict(a=a, b=b, coverage=covs))
                kept_results(rep, "beta_equal_tailed_interval", util.beta_equal_tailed_interval, (a, b, ca), (a, b, other), dict(a=a, b=b, coverage=covs))
                kept_results(rep, "beta_highest_density_coverage", util.beta_highest_density_coverage, (a, b, xa), (a, b, xa[::-1].copy()), dict(a=a, b=b, x=xs))
                kept_results(rep, "beta_equal_tailed_coverage", util.beta_equal_tailed_coverage, (a, b, xa), (a, b, xa[::-1].copy()), dict(a=a, b=b, x=xs))
            for c, x, y in zip(covs, hx, hy):
                x, y = float(x), float(y)
                call = f"beta_highest_density_interval({a}, {b}, np.array({covs!r}))  # element with coverage {c!r}"
                inp = dict(a=a, b=b, coverage=c, coverage_hex=C.fhex(c), all_coverages=covs)
                if not (0.0 <= x <= 1.0 and 0.0 <= y <= 1.0):
                    rep.violate(what="highest-density end points outside [0,1] (or nan)", input=inp, observed=[x, y], call=call)
                    continue
                add("beta.check_hdi", f"{a} {b} {C.fhex(c)} {C.fhex(x)} {C.fhex(y)} {tol(TOL_MASS)} {tol(TOL_ORDER)} {tol(TOL_LEN)} {tol(W0)}",
                    kind="hdi", inp=inp, call=call, x=x, y=y, c=c, a=a, b=b)
                for which, e in (("lower", x), ("upper", y)):
                    if (which == "lower" and a == 1) or (which == "upper" and b == 1):
                        # the end point is the mode (on the boundary) for every c: "0 at the mode" is the applicable clause
                        rep.skip("hd_inverse_at_end_point_pinned_to_a_boundary_mode")
                        cv = float(util.beta_highest_density_coverage(a, b, e))
                        rep.case(("hd_mode_end", a, b, c, which))
                        if not abs(cv) <= float(COV_TOL):
                            rep.violate(what="beta_highest_density_coverage at the (boundary) mode is not 0 to 2e-6",
                                        input=dict(inp, end=which, end_point=e), expected=0.0, observed=cv,
                                        call=f"beta_highest_density_coverage({a}, {b}, {e!r})")
                        continue
                    cv = float(util.beta_highest_density_coverage(a, b, e))
                    rep.case(("hd_inverse", a, b, c, which))
                    if not abs(Fr(cv) - Fr(c)) <= COV_TOL:
                        rep.violate(what="beta_highest_density_coverage(end point of the interval of coverage c) differs from c by more than 2e-6",
                                    input=dict(inp, end=which, end_point=e), expected=c, observed=cv,
                                    call=f"beta_highest_density_coverage({a}, {b}, {e!r})  # {e!r} = {which} end of {call}")
            hcov = np.asarray(util.beta_highest_density_coverage(a, b, xa), dtype=float)
            if hcov.shape != xa.shape:
                rep.violate(what="beta_highest_density_coverage does not broadcast", input=dict(a=a, b=b, x=xs), call="beta_highest_density_coverage")
            else:
                add("beta.hdcov", f"{a} {b} 60 {C.flist(xs)}", kind="hdcov", a=a, b=b, xs=xs, impl=hcov)
            # large workloads (the ld band simulation evaluates ~1e5 points per call): the same grid points as part of a call with more
            # than 10^4 .. 10^5 points in all -- one long x array, and (a, b) columns broadcast against a long x row -- judged by the same
            # exact brackets: the value at a point does not depend on how many other points travel with it
            big_i += 1
            if big_i % (6 if tier == "quick" else 2) == 0:
                brng = C.rng_for(f"C15.big.{a}.{b}", seed)
                m = brng.choice([10_001, 12_000, 20_000, 100_003])
                filler = np.array([brng.random() for _ in range(64)])
                long_x = np.concatenate([xa, np.resize(filler, m - len(xa))])
                forms = [("x[%d]" % m, lambda: util.beta_highest_density_coverage(a, b, long_x)[:len(xa)])]
                if m <= 20_000:
                    half = np.concatenate([xa, np.resize(filler, m // 2 + 1 - len(xa))])
                    forms.append(("(a,b)[2,1] x x[%d]" % len(half),
                                  lambda: util.beta_highest_density_coverage(np.array([[a], [a]]), np.array([[b], [b]]), half)[1, :len(xa)]))
                for lab, fn in forms:
                    rep.count("hdcov:large_call:" + ("x>1e4" if lab.startswith("x[") else "broadcast>1e4"))
                    try:
                        big = np.asarray(fn(), dtype=float)
                    except Exception as e:  # noqa: BLE001
                        rep.violate(what="beta_highest_density_coverage raised on a large array of valid points", input=dict(a=a, b=b, call_shape=lab), error=repr(e),
                                    call="beta_highest_density_coverage")
                        continue
                    add("beta.hdcov", f"{a} {b} 60 {C.flist(xs)}", kind="hdcov", a=a, b=b, xs=xs, impl=big)

        # ---- coverages next to 1 asked for by themselves, for small and skewed (a, b) (every tier): one scalar call per coverage,
        # one array call holding only such coverages, and one call with (a, b) arrays and a single scalar coverage.  Judged like
        # every other highest-density interval: exact mass and the verified optimality certificate / exact shorter witness.
        nrng = C.rng_for("C15.near1", seed)      # own generator: the strata below draw what they drew before
        near_pairs = list(NEAR1_PAIRS)
        for _ in range(5 if tier == "quick" else 40):
            n = nrng.randint(3, 300)
            i = nrng.choice([2, n - 1, nrng.randint(1, n), nrng.randint(1, n)])
            near_pairs.append((i, n + 1 - i))
        near_pairs += [nrng.choice(NEAR1_LARGE)] if tier == "quick" else list(NEAR1_LARGE)

        def add_hdi(a, b, c, x, y, call, mode, extra):
            x, y = float(x), float(y)
            inp = dict(a=a, b=b, coverage=c, coverage_hex=C.fhex(c), call_mode=mode, **extra)
            if not (0.0 <= x <= 1.0 and 0.0 <= y <= 1.0):
                rep.violate(what="highest-density end points outside [0,1] (or nan)", input=inp, observed=[x, y], call=call)
                return
            add("beta.check_hdi", f"{a} {b} {C.fhex(c)} {C.fhex(x)} {C.fhex(y)} {tol(TOL_MASS)} {tol(TOL_ORDER)} {tol(TOL_LEN)} {tol(W0)}",
                kind="hdi", inp=inp, call=call, x=x, y=y, c=c, a=a, b=b, mode=mode)

        for (a, b) in near_pairs:
            if a == 1 and b == 1:
                continue
            large = a + b - 1 > 400
            covs = [float(c) for c in NEAR1_COVS + [1 - 10 ** nrng.uniform(-9, -8), 1 - 10 ** nrng.uniform(-9, -5)]]
            if large:
                covs = [covs[0], covs[nrng.randint(1, 3)], covs[-1]]
            rep.count("near1_pairs:%s" % ("a_or_b=1" if min(a, b) == 1 else "min(a,b)=2" if min(a, b) == 2 else
                                          "symmetric" if a == b else "large" if large else "other"))
            for c in covs:
                rep.count("near1_scalar_call:1-c=1e%d" % math.floor(math.log10(1 - c) + 0.01))
                call = f"beta_highest_density_interval({a}, {b}, {c!r})"
                try:
                    x, y = util.beta_highest_density_interval(a, b, c)
                except Exception as e:  # noqa: BLE001
                    rep.violate(what="beta_highest_density_interval raised on valid arguments", input=dict(a=a, b=b, coverage=c),
                                error=repr(e), call=call)
                    continue
                if np.shape(x) != () or np.shape(y) != ():
                    rep.violate(what="beta_highest_density_interval of scalars is not a pair of scalars", input=dict(a=a, b=b, coverage=c), call=call)
                    continue
                add_hdi(a, b, c, x, y, call, "scalar", {})
            if not large:
                rep.count("near1_array_call_of_near1_coverages_only")
                call = f"beta_highest_density_interval({a}, {b}, np.array({covs!r}))"
                try:
                    xs_, ys_ = util.beta_highest_density_interval(a, b, np.array(covs))
                except Exception as e:  # noqa: BLE001
                    rep.violate(what="beta_highest_density_interval raised on valid arguments", input=dict(a=a, b=b, coverage=covs),
                                error=repr(e), call=call)
                    continue
                if np.shape(xs_) != (len(covs),) or np.shape(ys_) != (len(covs),):
                    rep.violate(what="beta_highest_density_interval does not broadcast", input=dict(a=a, b=b, coverage=covs), call=call)
                    continue
                for j, c in enumerate(covs):
                    add_hdi(a, b, c, xs_[j], ys_[j], call + f"  # element {j}", "array_of_near1_coverages", dict(all_coverages=covs))
        # (a, b) arrays with ONE scalar coverage next to 1
        small = [p_ for p_ in near_pairs if p_[0] + p_[1] - 1 <= 400 and p_ != (1, 1)]
        for c in [float(c_) for c_ in (NEAR1_COVS if tier != "quick" else [NEAR1_COVS[0], nrng.choice(NEAR1_COVS[1:]), 1 - 10 ** nrng.uniform(-9, -5)])]:
            grp = nrng.sample(small, 4)
            A, B = [p_[0] for p_ in grp], [p_[1] for p_ in grp]
            rep.count("near1_ab_arrays_with_one_scalar_coverage")
            call = f"beta_highest_density_interval(np.array({A}), np.array({B}), {c!r})"
            try:
                xs_, ys_ = util.beta_highest_density_interval(np.array(A), np.array(B), c)
            except Exception as e:  # noqa: BLE001
                rep.violate(what="beta_highest_density_interval raised on valid arguments", input=dict(a=A, b=B, coverage=c), error=repr(e), call=call)
                continue
            if np.shape(xs_) != (4,) or np.shape(ys_) != (4,):
                rep.violate(what="beta_highest_density_interval does not broadcast", input=dict(a=A, b=B, coverage=c), call=call)
                continue
            for j, (a, b) in enumerate(grp):
                add_hdi(a, b, c, xs_[j], ys_[j], call + f"  # element {j}", "ab_arrays_scalar_coverage", dict(A=A, B=B))

        # ---- broadcasting of all four over (a,b) arrays x coverage / x arrays, and scalars
        for it in range(8 if tier == "quick" else 60):
            # the same positive integers in another container: a Python-int list or an integer ndarray of any width that holds
            # each parameter (their sum a+b = n+1 need not fit: the arithmetic on them is the library's, not the caller's)
            dt = None if it < 2 else rng.choice(C.INT_DTYPES)
            cap = 250 if dt is None else min(250, int(np.iinfo(dt).max))
            n1, n2 = rng.randint(2, 40), rng.randint(max(2, cap - 20), 2 * cap - 2)
            i1 = rng.randint(1, n1)
            i2 = rng.randint(max(1, n2 + 1 - cap), min(n2, cap))
            rep.count("ab_container=%s" % (dt or "default_int"))
            A = np.array([[i1], [i2]], dtype=dt)
            B = np.array([[n1 + 1 - i1], [n2 + 1 - i2]], dtype=dt)
            if [int(v) for v in A.ravel()] != [i1, i2] or [int(v) for v in B.ravel()] != [n1 + 1 - i1, n2 + 1 - i2]:
                raise AssertionError("harness: the container does not hold the parameters exactly")
            cs = np.array([rng.random(), rng.random(), 0.5])
            xs = np.array([rng.random(), rng.random(), 0.25])
            for fn, arg in (("beta_equal_tailed_interval", cs), ("beta_highest_density_interval", cs),
                            ("beta_equal_tailed_coverage", xs), ("beta_highest_density_coverage", xs)):
                f = getattr(util, fn)
                out = f(A, B, arg)
                outs = out if isinstance(out, tuple) else (out,)
                rep.case(("broadcast", fn, i1, i2, n1, n2, tuple(arg)))
                if any(np.shape(o) != (2, 3) for o in outs):
                    rep.violate(what=f"{fn} does not broadcast (2,1),(2,1),(3,) to (2,3)", input=dict(a=A, b=B, arg=arg), call=fn)
                    continue
                for r_, (aa, bb) in enumerate(((i1, n1 + 1 - i1), (i2, n2 + 1 - i2))):
                    for c_ in range(3):
                        s = f(aa, bb, float(arg[c_]))
                        ss = s if isinstance(s, tuple) else (s,)
                        if any(np.shape(v) != () for v in ss):
                            rep.violate(what=f"{fn} of scalars is not a scalar", input=dict(a=aa, b=bb, arg=float(arg[c_])), call=fn)
                        for o, v in zip(outs, ss):
                            # the bisection variants run more iterations on arrays: agreement to the bisection tolerance
                            lim = 0.0 if "equal_tailed" in fn else (4e-10 if "interval" in fn else 2e-6)
                            if not abs(float(o[r_, c_]) - float(v)) <= lim:
                                rep.violate(what=f"{fn}: broadcast element differs from the scalar call"
                                                 + (f" (a, b given as {dt} arrays, each parameter representable)" if dt else ""),
                                            input=dict(a=aa, b=bb, arg=float(arg[c_]), ab_container=dt or "default_int",
                                                       A=[int(v_) for v_ in A.ravel()], B=[int(v_) for v_ in B.ravel()]),
                                            expected=float(v), observed=float(o[r_, c_]),
                                            call=f"{fn}(np.array({[[int(x)] for x in A.ravel()]}, dtype={dt!r}), np.array({[[int(x)] for x in B.ravel()]}, dtype={dt!r}), np.array({[float(x) for x in arg]}))[{r_},{c_}] vs {fn}({aa}, {bb}, {float(arg[c_])!r})")

        # ---- element-wise broadcasting over the whole order-statistic family: a = (1..n), b = (n..1) as 1-D arrays (so that
        # b == a[::-1], the shape the ld bands use) with a NON-constant argument array of shape (n,) and (k, n); every element
        # must be the scalar call with ITS OWN coverage / x
        for it in range(3 if tier == "quick" else 25):
            n = rng.randint(2, 9) if it else 2
            A, B = np.arange(1, n + 1), np.arange(n, 0, -1)
            for fn in ("beta_equal_tailed_interval", "beta_highest_density_interval", "beta_equal_tailed_coverage", "beta_highest_density_coverage"):
                if "highest" in fn and n == 1:
                    continue
                f = getattr(util, fn)
                for shape in ((n,), (2, n)):
                    arg = np.array([rng.uniform(0.02, 0.98) for _ in range(int(np.prod(shape)))]).reshape(shape)
                    if "highest" in fn and n == 2:
                        pass        # (1,2) and (2,1) both have a highest-density interval; (1,1) cannot occur for n >= 2
                    rep.count("elementwise_broadcast:%s:%s" % (fn.split("_")[1], "x".join(map(str, shape))))
                    try:
                        out = f(A, B, arg)
                    except Exception as e:  # noqa: BLE001
                        rep.violate(what=f"{fn} raised on element-wise arrays of the order-statistic family", error=repr(e),
                                    input=dict(a=A, b=B, arg=arg), call=fn)
                        continue
                    outs = out if isinstance(out, tuple) else (out,)
                    if any(np.shape(o) != shape for o in outs):
                        rep.violate(what=f"{fn} does not broadcast ({n},),({n},),{shape} to {shape}", input=dict(a=A, b=B, arg=arg), call=fn)
                        continue
                    for idx in np.ndindex(*shape):
                        j = idx[-1]
                        sv = f(int(A[j]), int(B[j]), float(arg[idx]))
                        ss = sv if isinstance(sv, tuple) else (sv,)
                        rep.case(("elementwise", fn, n, shape, idx, float(arg[idx])))
                        lim = 0.0 if "equal_tailed" in fn else (4e-10 if "interval" in fn else 2e-6)
                        for o, v in zip(outs, ss):
                            if not abs(float(o[idx]) - float(v)) <= lim:
                                rep.violate(what=f"{fn}: element {idx} of an element-wise call (a=1..n, b=n..1, argument array of shape {shape}) "
                                                 "differs from the scalar call with that element's own argument",
                                            input=dict(a=int(A[j]), b=int(B[j]), arg=float(arg[idx]), n=n, shape=list(shape),
                                                       arg_array=[float(x) for x in arg.ravel()]),
                                            expected=float(v), observed=float(o[idx]),
                                            call=f"{fn}(np.arange(1,{n}+1), np.arange({n},0,-1), np.array({[float(x) for x in arg.ravel()]}).reshape{shape})[{idx}] "
                                                 f"vs {fn}({int(A[j])}, {int(B[j])}, {float(arg[idx])!r})")
                                break

    replies = drv.run(reqs)

    # ---- second stage: proposed certificates for the highest-density intervals the simple search could not certify
    reqs2, meta2 = [], []
    side_cache = {}
    for mt, r in zip(meta, replies):
        kind = mt["kind"]
        if r is None:
            rep.disagree(op=mt["op"], note="model rejected", input=mt.get("inp", dict(a=mt.get("a"), b=mt.get("b"))))
            continue
        if kind == "et":
            ok, dm, dt = r[0] == "1", g(r[1]), g(r[2])
            rep.case(("et", mt["inp"]["a"], mt["inp"]["b"], mt["c"]),
                     sample=dict(op="beta_equal_tailed_interval", **{k: mt["inp"][k] for k in ("a", "b", "coverage")}, x=mt["x"], y=mt["y"],
                                 exact_mass_minus_c=float(dm), exact_tail_difference=float(dt)))
            if not ok:
                x, y = mt["x"], mt["y"]
                what = ("0 <= x <= y <= 1 fails" if not (0 <= x <= y <= 1) else
                        "mass between the end points differs from the coverage by more than 1e-9" if abs(dm) > Fr(1, 10 ** 9) else
                        "the two tails differ by more than 1e-9")
                rep.violate(what="equal-tailed interval: " + what, input=mt["inp"], observed=[x, y],
                            exact_mass_minus_coverage=float(dm), exact_tail_difference=float(dt), call=mt["call"])
        elif kind == "hdi":
            massok, certok, dm, M = r[0] == "1", r[1] == "1", g(r[2]), g(r[3])
            a, b, c, x, y = mt["a"], mt["b"], mt["c"], mt["x"], mt["y"]
            rep.case(("hdi", a, b, c) + ((mt["mode"],) if mt.get("mode") else ()), sample=dict(op="beta_highest_density_interval", a=a, b=b, coverage=c, x=x, y=y,
                                                   exact_mass_minus_c=float(dm), certified_by_simple_search=certok))
            if not massok:
                what = ("x <= y (up to 1e-12) fails" if not x <= y + 1e-12 else
                        "mass between the end points differs from the coverage by more than 1e-9")
                rep.violate(what="highest-density interval: " + what, input=mt["inp"], observed=[x, y],
                            exact_mass_minus_coverage=float(dm), call=mt["call"])
            if certok:
                rep.count("hdi_certified_by_simple_search")
                continue
            try:
                x1, x2, y2, y1, s, xl, yr = propose_level_set(a, b, M + Fr(1, GRID))
            except Exception as e:       # the proposal is untrusted; failing to propose is a broken tie, not a verdict
                rep.disagree(op="beta.check_hdi", note="no certificate found and the proposal search failed: " + repr(e), input=mt["inp"])
                continue
            reqs2.append(("beta.check_hdi_cert", f"{a} {b} {C.fhex(x)} {C.fhex(y)} {C.fhex(x1)} {C.fhex(x2)} {C.fhex(y2)} {C.fhex(y1)} "
                          f"{C.fhex(s)} {tol(TOL_LEN)}"))
            meta2.append(dict(mt, prop=(x1, x2, y2, y1, s)))
        elif kind == "etcov":
            a, b = mt["a"], mt["b"]
            for x, v, tok in zip(mt["xs"], mt["impl"], r):
                exact = g(tok)
                v = float(v)
                rep.case(("etcov", a, b, x), sample=dict(op="beta_equal_tailed_coverage", a=a, b=b, x=x, impl=v, exact=float(exact)))
                # floor to the grid costs at most 1e-40
                if not abs(Fr(v) - exact) <= COV_TOL:
                    rep.violate(what="beta_equal_tailed_coverage differs from 2|1/2 - G(x)| (the coverage of the smallest equal-tailed "
                                "interval containing x) by more than 2e-6", input=dict(a=a, b=b, x=x, x_hex=C.fhex(x)),
                                expected=float(exact), observed=v, call=f"beta_equal_tailed_coverage({a}, {b}, {x!r})")
                if x in (0.0, 1.0) and not abs(v - 1.0) <= float(COV_TOL):
                    rep.violate(what="beta_equal_tailed_coverage is not 1 at the end of the support", input=dict(a=a, b=b, x=x),
                                expected=1.0, observed=v, call=f"beta_equal_tailed_coverage({a}, {b}, {x!r})")
                if x == mt["med"] and not abs(v) <= float(COV_TOL):
                    rep.violate(what="beta_equal_tailed_coverage is not 0 at the median", input=dict(a=a, b=b, x=x),
                                expected=0.0, observed=v, call=f"beta_equal_tailed_coverage({a}, {b}, {x!r})")
        elif kind == "etside":
            # monotone away from the median: the side of each grid point is decided exactly (G(x) vs 1/2)
            a, b = mt["a"], mt["b"]
            side = [g(tok) < Fr(1, 2) for tok in r]
            xs, v = mt["xs"], [float(t) for t in mt["impl"]]
            rep.case(("et_monotone", a, b))
            for i in range(len(xs) - 1):
                if side[i] and side[i + 1] and not v[i] >= v[i + 1] - MONO_SLACK:
                    rep.violate(what="beta_equal_tailed_coverage increases towards the median", input=dict(a=a, b=b, x1=xs[i], x2=xs[i + 1]),
                                observed=[v[i], v[i + 1]], call="beta_equal_tailed_coverage")
                if (not side[i]) and (not side[i + 1]) and not v[i] <= v[i + 1] + MONO_SLACK:
                    rep.violate(what="beta_equal_tailed_coverage decreases away from the median", input=dict(a=a, b=b, x1=xs[i], x2=xs[i + 1]),
                                observed=[v[i], v[i + 1]], call="beta_equal_tailed_coverage")
        elif kind == "hdcov":
            a, b = mt["a"], mt["b"]
            mode = Fr(a - 1, a + b - 2)
            xs, v = mt["xs"], [float(t) for t in mt["impl"]]
            for i, x in enumerate(xs):
                lo_, hi_ = g(r[2 * i]), g(r[2 * i + 1])
                rep.case(("hdcov", a, b, x), sample=dict(op="beta_highest_density_coverage", a=a, b=b, x=x, impl=v[i],
                                                         exact_bracket=[float(lo_), float(hi_)]))
                if not (lo_ - COV_TOL <= Fr(v[i]) <= hi_ + COV_TOL):
                    rep.violate(what="beta_highest_density_coverage differs from G(y*) - G(x), f(y*) = f(x) (the coverage of the smallest "
                                "highest-density interval containing x) by more than 2e-6", input=dict(a=a, b=b, x=x, x_hex=C.fhex(x)),
                                expected=[float(lo_), float(hi_)], observed=v[i], call=f"beta_highest_density_coverage({a}, {b}, {x!r})")
                far_end = (x == 0.0 and a > 1) or (x == 1.0 and b > 1)
                if far_end and not abs(v[i] - 1.0) <= float(COV_TOL):
                    rep.violate(what="beta_highest_density_coverage is not 1 at the far end of the support", input=dict(a=a, b=b, x=x),
                                expected=1.0, observed=v[i], call=f"beta_highest_density_coverage({a}, {b}, {x!r})")
                if Fr(x) == mode and not abs(v[i]) <= float(COV_TOL):
                    rep.violate(what="beta_highest_density_coverage is not 0 at the mode", input=dict(a=a, b=b, x=x), expected=0.0,
                                observed=v[i], call=f"beta_highest_density_coverage({a}, {b}, {x!r})")
            rep.case(("hd_monotone", a, b))
            for i in range(len(xs) - 1):
                left = Fr(xs[i + 1]) <= mode
                right = Fr(xs[i]) >= mode
                # the implementation's own bisection tolerance (1e-10 on y) moves the value by up to density * 1e-10
                if left and not v[i] >= v[i + 1] - float(COV_TOL):
                    rep.violate(what="beta_highest_density_coverage increases towards the mode", input=dict(a=a, b=b, x1=xs[i], x2=xs[i + 1]),
                                observed=[v[i], v[i + 1]], call="beta_highest_density_coverage")
                if right and not v[i] <= v[i + 1] + float(COV_TOL):
                    rep.violate(what="beta_highest_density_coverage decreases away from the mode", input=dict(a=a, b=b, x1=xs[i], x2=xs[i + 1]),
                                observed=[v[i], v[i + 1]], call="beta_highest_density_coverage")

    replies2 = drv.run(reqs2)
    for mt, r in zip(meta2, replies2):
        a, b, c, x, y = mt["a"], mt["b"], mt["c"], mt["x"], mt["y"]
        x1, x2, y2, y1, s = mt["prop"]
        if r is None:
            rep.disagree(op="beta.check_hdi_cert", note="model rejected the proposed certificate", input=mt["inp"], proposal=mt["prop"])
            continue
        certok, witness, bound = r[0] == "1", r[1] == "1", g(r[2])
        if certok:
            rep.count("hdi_certified_by_proposed_level_set")
            continue
        if witness:
            key = hdi_finding_key(a, b, c, (y - x) - (y1 - x1))
            violate(rep, what="highest-density interval: an interval of at least the same (exact) mass is shorter by more than 1e-9",
                        input=mt["inp"], observed=dict(x=x, y=y, length=y - x),
                        shorter_interval=dict(u=x1, v=y1, length=y1 - x1, shorter_by=(y - x) - (y1 - x1)),
                        call=mt["call"], **({"finding_key": key} if key else {}))
        else:
            rep.disagree(op="beta.check_hdi_cert", note="neither an optimality certificate nor a shorter interval of the same mass was found",
                         input=mt["inp"], proposal=mt["prop"], lower_bound_minus_length=safe_float(bound))

    return rep.result(
        rule="(a,b) = (i, n+1-i) for a structured set of n (1,2,3,4,5,7,10,13,20,31,50,100,199,300 + random; thorough adds 40 random n, "
             "500, 1000) and i in {1,2,3,n/4,n/2,n/2+1,n-2,n-1,n,random}; coverages {0,1e-9,1e-6,1e-3,.1,.5,.9,.95,.99,1-1e-3,"
             "1-1e-6,1-1e-9,1,random x3}; plus, in every tier, n in {1100,1500,2000} x i in {1,n/4,n/2,3n/4,n} x coverages "
             "{.5,.9,.99} (all four helpers, exact; thorough adds a random n in 1001..2000, i in {2,n-1,random} and the extreme "
             "coverages); x grids {0,1,mode and neighbours,median,1e-12,1-1e-12,.5,random, normal around the mean}. "
             "Highest-density intervals also for coverages next to 1 asked for BY THEMSELVES (1-1e-9, 1-1e-8, 1-1e-7, 1-1e-6, 1-1e-5, "
             "random 1-1e-9..1-1e-5): one scalar call per coverage, one array of only such coverages, (a,b) arrays with one scalar "
             "coverage, for 14 small / skewed (a,b), random (i, n+1-i) with n <= 300 and one (quick) or five (thorough) large pairs. "
             "A case is one exact check of one returned value (interval, inverse relation at one end point, coverage value, "
             "monotonicity of one grid, one broadcast call); distinct by hash of (kind, a, b, argument).",
        extra=dict(driver_lines=drv.lines))


if __name__ == "__main__":
    C.main(run)
