"""C10 correspondence: what `fit` hands to its optimiser (bounds, integrality, initial population, objective)
and what it returns, against the Lean bookkeeping model and against a Spec objective written from the
docstring; both parametric classes."""
import math

import numpy as np

import common as C
import fit_common as F

INF = float("inf")


def gen_policy(rng, case):
    fr = F.free_of(case)
    nb = sum(1 for k in ("a", "b", "c", "o") if fr[k])
    pol = []
    menu = rng.choice(["finite", "finite", "ties", "true", "mixed", "allbad"])
    for _ in F.convexs_of(case):
        u = [rng.random() for _ in range(nb)]
        if menu == "finite":
            fun = round(rng.uniform(-1, 3), 3)
        elif menu == "ties":
            fun = 0.5
        elif menu == "true":
            fun = "true"
        elif menu == "mixed":
            fun = rng.choice([0.25, 0.25, 1.0, INF, float("nan"), -INF, "true"])
        else:
            fun = rng.choice([INF, float("nan")])
        pol.append(dict(fun=fun, u=u))
    return pol


def gen_cases(rng, n_quad, n_noisy):
    cases = list(F.degenerate_cases(rng))
    for cls, k in (("quad", n_quad), ("noisy", n_noisy)):
        made = 0
        while made < k:
            ys, dtype = F.gen_sample(rng)
            lo, hi = F.gen_limits(rng, ys)
            if F.data_anchor(ys, lo, hi) is None:
                continue
            cons = F.gen_constraints(rng, cls, ys, lo, hi, light_c=(cls == "noisy" and rng.random() < 0.85), allow_f8=False)
            cases.append(F.make_case(cls, ys, dtype, lo, hi, cons))
            made += 1
    return cases


def gen_signed_wide_cases(rng, n_quad, n_noisy):
    """the sample family of `F.gen_sample_signed_wide` (negated losses / mixed-sign scores over 3-8 orders of
    magnitude with near-ties of 1-4 ulps among the large-magnitude observations), with and without limits, with the
    usual constraint menu; a stream of its own, so that the cases of `gen_cases` stay what they were per seed"""
    cases = []
    for cls, k in (("quad", n_quad), ("noisy", n_noisy)):
        made = 0
        while made < k:
            ys, dtype, tags = F.gen_sample_signed_wide(rng)
            lo, hi = F.gen_limits(rng, ys) if rng.random() < 0.6 else (-INF, INF)
            if F.data_anchor(ys, lo, hi) is None:
                continue
            cons = (F.gen_constraints(rng, cls, ys, lo, hi, light_c=(cls == "noisy"), allow_f8=False)
                    if rng.random() < 0.5 else
                    ({"c": ["i", 1, 2]} if cls == "noisy" else {}))
            case = F.make_case(cls, ys, dtype, lo, hi, cons)
            case["family"] = dict(tags, name="signed_wide")
            cases.append(case)
            made += 1
    return cases


def gen_censoring_cases(rng, reps):
    """deterministic family (a stream of its own): (i) finite limits that censor NOTHING (a finite lower limit below every
    observation, a finite upper limit above every observation, both) -- the buckets must then be what they are without limits,
    closed by -inf/+inf resp. the support; (ii) censored observations whose magnitude is 10 ... 1e9 times that of every uncensored
    one (a diverged run), on either side: only their COUNT may enter (rounding precision, bucket edges and the objective are
    functions of the uncensored values, the limits and the counts)"""
    cases = []
    for cls in ("quad", "noisy"):
        for r in range(reps):
            n = rng.choice([5, 8, 12, 20])
            ys = [rng.uniform(0.05, 1.0) for _ in range(n)]          # full-precision floats of order 1
            dtype = "float64"
            lo_, hi_ = min(ys), max(ys)
            light = {"c": ["i", 1, 3]} if cls == "noisy" else {}
            for kind in ("lower_below_all", "upper_above_all", "both_outside"):
                lo = lo_ - rng.choice([1e-3, 0.5, 10.0]) if kind != "upper_above_all" else -INF
                hi = hi_ + rng.choice([1e-3, 0.5, 10.0]) if kind != "lower_below_all" else INF
                case = F.make_case(cls, list(ys), dtype, lo, hi, dict(light))
                case["family"] = dict(name="limits_censor_nothing", kind=kind)
                cases.append(case)
            for factor in (1e1, 1e3, 1e6, 1e9):
                for side in ("right", "left"):
                    k = rng.choice([1, 2, 3])
                    if side == "right":
                        extra = [hi_ * factor * rng.uniform(1.0, 3.0) for _ in range(k)]
                        lo, hi = -INF, hi_ + rng.choice([1e-6, 1e-2, 0.3])
                    else:
                        extra = [-(hi_ * factor * rng.uniform(1.0, 3.0)) for _ in range(k)]
                        lo, hi = lo_ - rng.choice([1e-6, 1e-2, 0.03]), INF
                    allys = list(ys) + extra
                    rng.shuffle(allys)
                    if F.data_anchor(allys, lo, hi) is None:
                        continue
                    case = F.make_case(cls, allys, dtype, lo, hi, dict(light))
                    case["family"] = dict(name="censored_values_of_much_larger_magnitude", factor=factor, side=side, count=k)
                    cases.append(case)
    return cases


def side_flags(case, out, sp, b):
    """explicit predicates on the failing input (rounded values, as `np.unique` sees them): the hypotheses of
    the theorem `buckets_model_eq_spec` one by one"""
    n, n_lower, n_upper, obs, lo, hi = F.observed_part(case)
    dec = out["decimals"]
    obs_r = [F.rnd(y, dec) for y in obs]
    elo_r, ehi_r = F.rnd(sp["edge"][0], dec), F.rnd(sp["edge"][1], dec)
    ll_r, lu_r = F.rnd(lo, dec), F.rnd(hi, dec)
    f6a = any(y == elo_r for y in obs_r)                       # (A) an observation on the lower support edge
    f6b = n_lower > 0 and ll_r == elo_r                        # (A) the lower limit on the lower support edge
    f6c = n_upper > 0 and lu_r == ehi_r                        # (B) the upper limit on the upper support edge
    f6d = n_lower > 0 and any(y == ll_r for y in obs_r)        # an observation rounds onto the lower limit
    side_a = all(elo_r < p for p in obs_r + ([ll_r] if n_lower > 0 else []) + ([lu_r] if n_upper > 0 else []) + [ehi_r])
    side_b = not (n_upper > 0) or lu_r < ehi_r
    other = (n_lower > 0 and n_upper > 0 and not ll_r < lu_r) or (n_lower > 0 and not ll_r < ehi_r)
    # noisy class only: the data-driven bound on the noise is 0 (all observations equal) although the user did
    # not pin it, so `a`/`b` were never validated against the data and observations lie outside [a-, b+]
    f11 = case["cls"] == "noisy" and any(y < elo_r or y > ehi_r for y in obs_r)
    return dict(f6a=f6a, f6b=f6b, f6c=f6c, f6d=f6d, f11=f11, A=side_a, B=side_b,
                hyps=side_a and side_b and not f6d and not other and not f11)


def finding_key(fl):
    """one key per violation: the upper coincidence first, then the lower ones"""
    if fl["f11"]:
        return "F11-noisy-noise-pinned-by-data-observations-outside-support-hull"
    if fl["f6c"]:
        return "F6c-upper-limit-equals-upper-support-edge"
    if fl["f6b"]:
        return "F6b-lower-limit-equals-lower-support-edge"
    if fl["f6a"]:
        return "F6a-observations-on-lower-support-edge-dropped"
    if fl["f6d"]:
        return "F6d-observation-rounds-onto-lower-limit-dropped"
    return None


class Collector:
    """violations are pushed into the report with the un-keyed ones first (a violation that matches no known
    finding must never be crowded out of the replays), then a few per finding key"""

    def __init__(self, rep):
        self.rep, self.items = rep, []

    def violate(self, **kw):
        self.items.append(kw)
        self.rep.count("violation=" + kw.get("finding_key", "unkeyed"))

    def flush(self):
        per_key = {}
        ordered = [v for v in self.items if "finding_key" not in v]
        for v in self.items:
            k = v.get("finding_key")
            if k is not None and per_key.setdefault(k, 0) < 3:
                per_key[k] += 1
                ordered.append(v)
        rest = [v for v in self.items if v not in ordered]
        for v in ordered + rest:
            self.rep.violate(**v)


def run(seed, tier, replay=None):
    rep = C.Report("C10", seed, tier)
    col = Collector(rep)
    rng = C.rng_for("C10", seed)
    drv = C.Driver()
    if replay is not None:
        v = replay.get("violation", replay)
        vin = v.get("input", {})
        cases, tasks, real_tasks = [], [], []
        if "truth" in vin:
            real_tasks = [dict(case=vin["case"], mode="real", n_theta=0, seed=0, gen_seed=vin["gen_seed"], truth=vin["truth"])]
        else:
            cases = [vin["case"]]
            pol = vin.get("policy") or gen_policy(rng, cases[0])
            for p_ in pol:
                if isinstance(p_["fun"], str) and p_["fun"] != "true":
                    p_["fun"] = float(p_["fun"])
            tasks = [dict(case=cases[0], mode="stub", policy=pol, n_theta=6, seed=0, gen_seed=0)]
    else:
        n_quad, n_noisy = (520, 170) if tier == "quick" else (6000, 1500)
        cases = gen_cases(rng, n_quad, n_noisy)
        tasks = [dict(case=c, mode="stub", policy=gen_policy(rng, c), n_theta=3, seed=i, gen_seed=i)
                 for i, c in enumerate(cases)]
        real_tasks = gen_real_tasks(rng, 6 if tier == "quick" else 40, 2 if tier == "quick" else 10)
        rng_w = C.rng_for("C10/signed-wide", seed)
        wide = gen_signed_wide_cases(rng_w, *((90, 24) if tier == "quick" else (900, 240)))
        tasks += [dict(case=c, mode="stub", policy=gen_policy(rng_w, c), n_theta=3, seed=len(cases) + i, gen_seed=len(cases) + i)
                  for i, c in enumerate(wide)]
        cases += wide
        rng_c = C.rng_for("C10/censoring", seed)
        cens = gen_censoring_cases(rng_c, 1 if tier == "quick" else 8)
        tasks += [dict(case=c, mode="stub", policy=gen_policy(rng_c, c), n_theta=3, seed=len(cases) + i, gen_seed=len(cases) + i)
                  for i, c in enumerate(cens)]
        cases += cens
    outs = F.run_pool(tasks + real_tasks)
    real_outs = outs[len(tasks):]
    outs = outs[:len(tasks)]
    for t, o in zip(tasks + real_tasks, outs + real_outs):
        if "harness_error" in o:
            raise RuntimeError("worker failed: " + o["harness_error"])
    M = F.model_eval(drv, cases, outs, rep)

    for ci, (case, task, out, m) in enumerate(zip(cases, tasks, outs, M)):
        inp = dict(case=case, policy=[dict(p, fun=(p["fun"] if isinstance(p["fun"], str) else C.jsonable(p["fun"])))
                                      for p in task["policy"]] if task.get("policy") else None)
        rep.count("class=" + case["cls"])
        rep.count("dtype=" + case["dtype"])
        s = out["summary"]
        fam = case.get("family")
        if fam is not None and fam["name"] != "signed_wide":
            rep.count("family=%s:%s" % (fam["name"], fam.get("kind") or "factor=%g:%s" % (fam.get("factor", 0), fam.get("side"))))
        elif fam is not None:
            lim = "none" if s["n_lower"] == 0 and s["n_upper"] == 0 else "censoring"
            rep.count(f"family={fam['name']}")
            rep.count(f"family={fam['name']}:sign={fam['sign']}")
            rep.count(f"family={fam['name']}:orders_of_magnitude={fam['orders']}")
            rep.count(f"family={fam['name']}:dtype={case['dtype']}:limits={lim}")
            for u in fam["near_tie_ulps"]:
                rep.count(f"family={fam['name']}:near_tie_ulps={u}")
            if "decimals" in out:
                rep.count(f"family={fam['name']}:documented_decimals={out['decimals']}")
        rep.count("limits=" + ("none" if s["n_lower"] == 0 and s["n_upper"] == 0 else "left" if s["n_upper"] == 0
                               else "right" if s["n_lower"] == 0 else "both"))
        for k in ("a", "b", "c", "o", "convex"):
            v = case["constraints"].get(k)
            rep.count(f"{k}=" + ("absent" if v is None else "fixed" if v[0] in ("f", "ff", "s") else "interval"))
        if "spec_error" in out:
            raise RuntimeError("spec side failed: " + out["spec_error"])
        if m is None:
            rep.skip("call_rejected_before_the_loop(n<3_or_nothing_observed)")
            continue
        if not F.check_summary(rep, case, out, m):
            continue
        pl = m["plan"]
        if pl["pre"] != "ok":
            rep.count("precheck=" + pl["pre"])
            # C11's domain; here only the correspondence of the exception class
            if pl["pre"] not in F.CONFORMING:
                rep.skip("modelled_defect_before_the_loop(" + pl["pre"] + "):decided_by_C11")
                continue
            if out["outcome"] != "exc" or out["exc"]["cls"] != pl["pre"]:
                rep.disagree(op="precheck", note="model predicts an exception before the loop, the code does not raise it",
                             input=inp, model=pl["pre"], observed=out.get("exc", out.get("result")))
            continue
        fr = F.free_of(case)
        nb = pl["nb"]
        convexs = F.convexs_of(case)
        # ---------------- per optimiser call: box, integrality, population, objective
        call_i = 0
        for pi, p in enumerate(pl["passes"]):
            if p.get("st") != "ok":
                break   # the code raises OptimizationError here (class compared below / in C11)
            b = p.get("buckets")
            if b is None:
                break
            sp = out["passes"][pi] if pi < len(out.get("passes", [])) else None
            if nb > 0:
                if call_i >= len(out["calls"]):
                    if b["ks"] is None:
                        rep.count("model:IndexError_in_bucket_fixups")
                    break
                rec = out["calls"][call_i]
                call_i += 1
                key = (ci, pi)
                # (a) bounds, exactly
                rep.case(("bounds",) + key, sample=dict(op="bounds", case=case, model=p["box"], code=rec["bounds"]))
                if len(rec["bounds"]) != len(p["box"]) or not all(
                        F.feq(cb[0], mb[0]) and F.feq(cb[1], mb[1]) for cb, mb in zip(rec["bounds"], p["box"])):
                    viol = box_violation(case, rec, fr)
                    if viol:
                        col.violate(what=viol, input=inp, expected=p["box"], observed=rec["bounds"], call="fit -> differential_evolution(bounds=...)")
                    else:
                        rep.disagree(op="bounds", note="search box differs from the model's", input=inp, model=p["box"], code=rec["bounds"])
                # (b) integrality
                rep.case(("integrality",) + key)
                want = [ch == "1" for ch in pl["integ"]]
                if rec["integrality"] != want:
                    col.violate(what="integrality does not mark exactly the coordinate optimised as c", input=inp,
                                expected=want, observed=rec["integrality"], call="fit -> differential_evolution(integrality=...)")
                # (c) initial population: shape and box membership
                rep.case(("init",) + key)
                shape = rec["init_shape"]
                if pl["pop"] >= F.SCIPY_MIN_POP:
                    if shape != [pl["pop"], nb]:
                        rep.disagree(op="init", note="population shape differs from the model's closed form", input=inp,
                                     model=[pl["pop"], nb], code=shape)
                else:
                    rep.count("model:population_below_scipy_minimum")
                if rec["init"] is not None and len(shape) == 2 and shape[1] == len(rec["bounds"]):
                    for row in rec["init"]:
                        bad = [j for j, (x, (lo_, hi_)) in enumerate(zip(row, rec["bounds"])) if not (lo_ <= x <= hi_)]
                        badc = [j for j, x in enumerate(row) if rec["integrality"][j] and x != math.floor(x)]
                        if bad or badc:
                            col.violate(what="an initial candidate lies outside the search box handed to the optimiser",
                                        input=inp, observed=row, expected=rec["bounds"], call="fit -> differential_evolution(init=...)")
                            break
                f_code = rec["f_code"]
            else:
                rec, f_code = None, None
            # (d) objective at the probe points
            if sp is None or "error" in sp:
                continue
            if b["ks"] is None:
                rep.count("model:IndexError_in_bucket_fixups")
                break
            fl = side_flags(case, out, sp, b)
            if (fl["A"], fl["B"]) != (b["A"], b["B"]):
                rep.disagree(op="buckets", note="side-condition flags of the Lean model differ from the Python predicates",
                             input=inp, model=[b["A"], b["B"]], spec=[fl["A"], fl["B"]])
            inside = fl["hyps"]
            # model vs Spec on the counts (theorem buckets_model_eq_spec: equal under A and B)
            if inside and (b["ks"] != sp["counts"] or not p.get("edges_match", True)):
                rep.disagree(op="buckets", note="Lean model counts differ from the Python Spec although the hypotheses of buckets_model_eq_spec hold",
                             input=inp, model=dict(zs=b["zs"], ks=b["ks"]), spec=dict(zs=sp["zs"], counts=sp["counts"]))
            if inside and sum(b["ks"]) != pl["n"] + 1:
                rep.disagree(op="buckets", note="counts do not sum to n+1 although the hypotheses of sum_ks_eq hold", input=inp)
            rep.count("theorem_hypotheses=" + ("hold" if inside else "violated"))
            if f_code is None:
                continue
            for j, th in enumerate(sp["thetas"][:len(f_code)]):
                fc, fs, fm = f_code[j], sp["f_spec"][j], (p.get("f_model") or [None] * 99)[j]
                if sp["nonmono"][j]:
                    rep.skip("library_cdf_not_monotone_across_bucket_edges")
                    continue
                rep.case(("objective", ci, pi, j), sample=dict(op="objective", case=case, theta=th, code=fc, model=fm, spec=fs))
                if case.get("family") is not None:
                    rep.count(f"family={case['family']['name']}:objective_values_judged")
                fa = sp["f_spec_alt"][j]
                ok_spec = F.rel_close(fc, fs) or (fa is not None and F.rel_close(fc, fa))
                ok_model = fm is not None and F.rel_close(fc, fm)
                if not ok_spec and all(isinstance(x, float) and math.isfinite(x) for x in (fc, fs)) \
                        and math.isfinite(sp["scale"][j]) and abs(fc - fs) <= 1e-13 * (1.0 + sp["scale"][j]):
                    # both values are (nearly) zero by cancellation / log of a spacing within an ulp of 1: the
                    # difference is the rounding noise of the sum itself (~1e-16 per term), to which a tolerance
                    # relative to the *value* cannot apply
                    rep.skip("objective_difference_within_rounding_noise_of_the_sum(<=1e-13*(1+sum|terms|))")
                    continue
                if ok_spec:
                    if not ok_model:
                        if inside:
                            rep.disagree(op="loss", note="code agrees with the Spec objective but not with the model loss",
                                         input=inp, theta=th, code=fc, model=fm, spec=fs)
                        else:
                            rep.count("code_matches_spec_outside_A&B(model_not_applicable)")
                    continue
                key_ = finding_key(fl)
                col.violate(what="the objective handed to the optimiser differs from the documented grouped maximum-spacing "
                                 "objective by more than 1e-7 relative"
                                 + ("" if key_ is None else f" [{key_}]"),
                            input=dict(inp, convex=convexs[pi], theta=th),
                            expected=dict(spec_objective=fs, spec_edges=sp["zs"], spec_counts=sp["counts"], n=pl["n"],
                                          **({"alternative_reading": dict(objective=fa, counts=sp["alt"][0])} if fa is not None else {})),
                            observed=dict(code_objective=fc, model_loss=fm, model_ks=b["ks"], side_A=b["A"], side_B=b["B"]),
                            call=f"{'Noisy' if case['cls'] == 'noisy' else ''}QuadraticDistribution.fit -> objective(theta)",
                            **({"finding_key": key_} if key_ else {}))
                break
        # ---------------- (e) the returned object is the lowest-`fun` run
        pred = F.model_prediction(case, m)
        if pred is None:
            rep.skip("loop_outcome_not_modelled(objective_without_optimiser_not_available)")
            continue
        spec_sel = spec_selection(case, m)
        if nb == 0 and pred[0] == "ok" and out["outcome"] == "ok":
            # no optimiser call: the objective values compared by the loop are the code's own.  The documented
            # objective (Spec) decides; the model's loss stands in for it only under the theorem's hypotheses.
            flags = [side_flags(case, out, sp_, p_.get("buckets")) for p_, sp_ in zip(pl["passes"], out.get("passes", []))
                     if "error" not in sp_]
            if any(not fl_["hyps"] for fl_ in flags):
                funs = [sp_["f_spec"][0] for sp_ in out["passes"]]
                funs_alt = [sp_["f_spec"][0] if sp_["f_spec_alt"][0] is None else sp_["f_spec_alt"][0] for sp_ in out["passes"]]
                sels = [spec_selection(case, m, funs), spec_selection(case, m, funs_alt)]   # both admissible readings
                r = out["result"]
                rep.case(("returned-nb0", ci))
                key_ = next((finding_key(fl_) for fl_ in flags if not fl_["hyps"]), None)
                if all(sl is None for sl in sels):
                    col.violate(what="fit returned a distribution although the documented objective is infinite for every "
                                     "admissible shape" + (f" [{key_}]" if key_ else ""), input=inp, observed=r,
                                expected="OptimizationError", **({"finding_key": key_} if key_ else {}))
                elif not any(sl is not None and r["convex"] == convexs[sl["idx"]] for sl in sels):
                    col.violate(what="the returned shape is not the one with the lowest documented objective"
                                     + (f" [{key_}]" if key_ else ""), input=inp, observed=r,
                                expected=dict(objective_per_shape=funs, alternative_reading=funs_alt),
                                **({"finding_key": key_} if key_ else {}))
                continue
        if pred[0] == "exc":
            rep.count("model_outcome=" + pred[1])
            if pred[1] in F.CONFORMING:
                rep.case(("outcome", ci))
                if out["outcome"] != "exc" or out["exc"]["cls"] != pred[1]:
                    rep.disagree(op="outcome", note="exception class differs from the model's", input=inp,
                                 model=pred[1], observed=out.get("exc", out.get("result")))
            continue
        rep.count("model_outcome=ok")
        if F.spec_infeasible(out):
            # the stub's finite `fun` is a fiction here: per the documented objective every run of such a pass is
            # infinite.  What the objective is there is judged above (probe points); the outcome is C11's clause.
            rep.skip("returned_object_not_judged(documented_objective_infinite_for_a_whole_pass)")
            continue
        rep.case(("returned", ci), sample=dict(op="returned", case=case, model=pred[1], code=out.get("result")))
        sel = pred[1]
        if spec_sel is not None and (spec_sel["idx"] != sel["idx"] or any(not F.feq(spec_sel[k], sel[k]) for k in "abco")):
            rep.disagree(op="select", note="Lean best-of/unpack differs from the Python Spec of it", input=inp,
                         model=sel, spec=spec_sel)
            continue
        want_convex = convexs[sel["idx"]]
        if out["outcome"] != "ok":
            col.violate(what="fit raised although an optimiser run with a finite objective exists", input=inp,
                        expected=dict(sel, convex=want_convex), observed=out["exc"], call="fit(...)")
            continue
        r = out["result"]
        keys = "abc" if case["cls"] == "quad" else "abco"
        if any(not F.feq(r[k], sel[k]) for k in keys) or r["convex"] != want_convex:
            col.violate(what="the returned distribution is not the lowest-objective optimiser run with each coordinate "
                             "assigned to the parameter it was optimised as",
                        input=inp, expected=dict({k: sel[k] for k in keys}, convex=want_convex, run=sel["idx"]),
                        observed=r, runs=[dict(fun=d["fun"], x=d["x"]) for d in m["select_inputs"]], call="fit(...) return value")

    real_checks(col, rep, real_tasks, real_outs)
    col.flush()
    return rep.result(
        rule="stubbed-optimiser calls (one per generated (class, sample, limits, constraints)); besides the samples in [0,1] / "
             "[-2,1] / scaled, a family of negated losses and mixed-sign scores (|min| >> max, magnitudes over 3-8 orders, "
             "near-ties of 1-4 ulps among the large-magnitude observations, float64 / float32, with and without limits; the "
             "rounding is the documented one: 3 digits fewer than the largest spacing over the observed values); a case is one comparison: "
             "bounds / integrality / initial population per optimiser call, one objective value per probe point "
             "(random theta in the captured box + one initial candidate + the returned point), one returned object per call; "
             "distinct = distinct by (call index, pass, probe). Real fits: objective at the returned parameters vs at the "
             "generating parameters (1e-6) and returned object vs captured optimiser results.",
        extra=dict(driver_lines=drv.lines))


def box_violation(case, rec, fr):
    """does the captured box violate a constraint (the property's own clause)?  Returns a description or None."""
    i = 0
    cons = case["constraints"]
    for k in ("a", "b", "c", "o"):
        if not fr[k]:
            continue
        if i >= len(rec["bounds"]):
            return None
        lo_, hi_ = rec["bounds"][i]
        i += 1
        v = cons.get(k)
        if v is not None and v[0] in ("i", "x"):
            cl, ch = (F.uh(v[1]), F.uh(v[2])) if k != "c" else (float(v[1]), float(v[2]))
            if lo_ < cl or hi_ > ch:
                return f"the search box of {k} is not inside its constraint"
        if k == "c" and (lo_ < 1 or hi_ > 10):
            return "the search box of c is not inside 1..10"
    return None


def spec_selection(case, m, funs=None):
    """Python Spec of best-of + read-back (for cross-checking the Lean model; the theorem is best_of_selection)"""
    best, bi = INF, None
    for i, d in enumerate(m["select_inputs"]):
        if d["plan_err"] or not d["buckets_ok"] or (d["nb"] > 0 and d["pop"] < F.SCIPY_MIN_POP):
            return None
        f = d["fun"] if funs is None else funs[i]
        if f < best:
            best, bi = f, i
    if bi is None or not math.isfinite(best):
        return None
    p = F._params_of(case, m["select_inputs"][bi]["x"])
    return dict(idx=bi, a=p["a"], b=p["b"], c=p["c"], o=p["o"])


def gen_real_tasks(rng, n_quad, n_noisy):
    """unconstrained real fits on samples drawn from known parameters (last clause of the property)"""
    import opda.parametric as P
    tasks = []
    for cls, k in (("quad", n_quad), ("noisy", n_noisy)):
        for _ in range(k):
            a = round(rng.uniform(-1, 1), 2)
            b = a + round(rng.uniform(0.5, 2), 2)
            c = rng.randint(1, 5)
            convex = rng.random() < 0.5
            o = round(rng.uniform(0.01, 0.1), 3) if cls == "noisy" else 0.0
            n = rng.choice([12, 20, 35])
            g = np.random.default_rng(rng.randrange(1 << 30))
            d = (P.QuadraticDistribution(a, b, c, convex) if cls == "quad"
                 else P.NoisyQuadraticDistribution(a, b, c, o, convex))
            ys = [float(v) for v in d.sample(n, generator=g)]
            case = F.make_case(cls, ys, "float64", -INF, INF, {})
            tasks.append(dict(case=case, mode="real", n_theta=0, seed=len(tasks), gen_seed=rng.randrange(1 << 30),
                              truth=dict(a=a, b=b, c=float(c), o=o, convex=convex)))
    return tasks


def real_checks(col, rep, tasks, outs):
    import warnings
    for task, out in zip(tasks, outs):
        case, truth = task["case"], task["truth"]
        inp = dict(case=case, gen_seed=task["gen_seed"], truth=truth)
        rep.count("real_fit=" + case["cls"])
        if out["outcome"] != "ok":
            col.violate(what="an unconstrained fit of a sample drawn from the family raised", input=inp, observed=out["exc"],
                        call="fit(ys, generator=default_rng(seed))")
            continue
        convexs = [False, True]
        calls = out["calls"]
        if len(calls) != 2:
            rep.disagree(op="real", note="expected one optimiser run per admissible shape", input=inp, observed=len(calls))
            continue
        # the returned object is the lowest-fun run (strict <: first wins)
        funs = [c["result_fun"] for c in calls]
        bi = 0 if not (funs[1] < funs[0]) else 1
        want = F._params_of(case, calls[bi]["result_x"])
        wantc = F._params_of(case, [min(max(x, b_[0]), b_[1]) for x, b_ in zip(calls[bi]["result_x"], calls[bi]["bounds"])])
        r = out["result"]
        rep.case(("real-returned", task["gen_seed"]))
        keys = "abc" if case["cls"] == "quad" else "abco"
        # (the optimiser's vector, or that vector clipped into the box it was given)
        if any(not (F.feq(r[k], want[k]) or F.feq(r[k], wantc[k])) for k in keys) or r["convex"] != convexs[bi]:
            col.violate(what="the returned distribution is not the lowest-objective optimiser run", input=inp,
                        expected=dict(want, convex=convexs[bi]), observed=r, runs=[dict(fun=f, x=c["result_x"]) for f, c in zip(funs, calls)])
        # objective at the generating parameters (evaluated through the Spec objective = the captured one up to 1e-7,
        # which the stubbed stream establishes) vs the attained value
        ti = convexs.index(truth["convex"])
        sp = out["passes"][ti]
        th = [truth["a"], truth["b"], truth["c"]] + ([truth["o"]] if case["cls"] == "noisy" else [])
        with warnings.catch_warnings(), np.errstate(all="ignore"):
            warnings.simplefilter("ignore")
            try:
                d = F._dist(case, dict(a=truth["a"], b=truth["b"], c=truth["c"], o=truth["o"]), truth["convex"])
                Fv = [float(v) for v in d.cdf(np.array(sp["zs"], dtype=float))]
                f_true, _ = F.spec_objective(Fv, sp["counts"], len(case["ys"]), sp["feasible"])
            except ValueError:
                f_true = INF
        rep.case(("real-objective", task["gen_seed"]),
                 sample=dict(op="no-worse-than-truth", attained=min(funs), at_generating_parameters=f_true, truth=truth))
        if f_true == f_true and min(funs) > f_true + 1e-6:
            col.violate(what="the fitted parameters attain an objective worse than the generating parameters by more than 1e-6",
                        input=inp, expected=f"<= {f_true} + 1e-6", observed=min(funs), call="fit(ys) objective")


if __name__ == "__main__":
    C.main(run)
