"""C13 correspondence: sample() of the three classes vs the Lean sampling model, bitwise / exactly.

Deterministic tie (no statistics): for every class, parameter/weight setting, size in {None, k, (k1,k2), 0} and
generator seed, `sample(size, generator=g)` must equal the *model's* function of the primitives drawn from a clone
of `g` (Quadratic: ppf of `uniform`; Noisy: quadratic part of `uniform` plus `normal(0, o)`; Empirical:
`ys[searchsortedRight(cumsum ws/Σws, random)]` in exact rationals, or `ys[integers(0, n)]`), must leave `g` where the
clone ends, and must have exactly the requested shape.  Support membership is checked exactly.

Spec oracle (the property's own test, false-alarm ≤ 1e-12 per comparison): sup|ECDF_N − cdf| ≤ sqrt(ln(2e12)/(2N)) +
class accuracy.  It runs on a few settings per tier, and on the setting of any replay that disagrees: only if it
fails is the disagreement reported as a violation of the property.
"""
import math
import warnings
from fractions import Fraction as Fr

import numpy as np

import common as C
import gen_emp as G

INF = float("inf")
TOL = Fr(1, 10 ** 12)


def clone(g):
    h = np.random.default_rng()
    h.bit_generator.state = g.bit_generator.state
    return h


def same_state(g, h):
    return g.bit_generator.state == h.bit_generator.state


def ulp(x):
    x = abs(float(x))
    return float(np.spacing(x)) if x == x and x != INF else 0.0


def dkw_radius(n):
    return math.sqrt(math.log(2e12) / (2 * n))


def sizes(rng):
    k = rng.choice([1, 2, 3, 5, 17, 64])
    return [None, k, (rng.choice([1, 2, 3]), rng.choice([1, 2, 4])), 0, rng.choice([1, (1,), (1, 1), (k, 1), (0, 2)])]


def expected_shape(size):
    if size is None:
        return ()
    if isinstance(size, tuple):
        return size
    return (size,)


def gen_quad(rng):
    c = rng.choice([1, 2, 3, 4, 5, 6, 7, 8, 9, 10])
    convex = rng.random() < 0.5
    kind = rng.random()
    if kind < 0.12:
        a = rng.choice([0.0, -1.5, 3.25, 1e3])
        b = a
    else:
        w = 10 ** rng.uniform(-6, 6) if kind < 0.5 else rng.choice([1.0, 0.5, 2.0, 100.0])
        a = rng.uniform(-1, 1) * min(400.0 * w, 1e6) if kind < 0.8 else rng.choice([0.0, -1.0, 0.25])
        b = a + w
        if not (b > a and abs(a) + abs(b) <= 1e3 * (b - a)):
            a, b = 0.0, w
    return float(a), float(b), c, convex


def gen_emp(rng):
    n = rng.choice([1, 1, 2, 3, 4, 6, 10, 25])
    style = rng.random()
    if style < 0.3:
        ys = [float(rng.randint(-3, 3)) for _ in range(n)]                # ties
    elif style < 0.6:
        ys = [rng.uniform(-5, 5) for _ in range(n)]
    elif style < 0.8:
        ys = [round(rng.gauss(0, 1), 1) for _ in range(n)]
    else:
        ys = [rng.choice([-INF, INF, 0.0, 1.0, -2.5, 1e300, 5e-324]) for _ in range(n)]
    wstyle = rng.random()
    if wstyle < 0.35 or n == 1 and wstyle < 0.5:
        ws = None
    else:
        if wstyle < 0.6:
            raw = [rng.randint(0, 4) for _ in range(n)]                   # zero weights, integer ratios
            if sum(raw) == 0:
                raw[rng.randrange(n)] = 1
        elif wstyle < 0.85:
            raw = [rng.random() for _ in range(n)]
        else:
            raw = [rng.choice([1e-12, 1.0, 1e-3, 0.0]) for _ in range(n)]
            if sum(raw) == 0:
                raw[0] = 1.0
        ws = np.array(raw, dtype=float)
        ws = ws / ws.sum()
        ws = [float(w) for w in ws]
    return ys, ws


def run(seed, tier, replay=None):
    import opda.random
    from opda.nonparametric import EmpiricalDistribution as ED
    from opda.parametric import NoisyQuadraticDistribution as NQ
    from opda.parametric import QuadraticDistribution as QD

    rep = C.Report("C13", seed, tier)
    rng = C.rng_for("C13", seed)
    drv = C.Driver()
    n_set = 250 if tier == "quick" else 2500
    legacy0 = np.random.get_state()[1].tobytes()

    reqs, meta = [], []
    suspects = []      # (class, params) whose deterministic tie broke: ask the oracle

    def with_sizes():
        return [(sz, rng.randrange(2 ** 32)) for sz in sizes(rng)]

    Qs, Ns, Es, oracle_jobs = [], [], [], []
    replay_muts = None
    if replay is None:
        for _ in range(n_set):
            Qs.append((gen_quad(rng), with_sizes()))
        for _ in range(n_set):
            a, b, c, convex = gen_quad(rng)
            w = b - a
            o = rng.choice([0.0, 1e-3, 0.1, 1.0, 10.0]) * (w if w > 0 and rng.random() < 0.7 else 1.0)
            Ns.append(((a, b, c, o, convex), with_sizes()))
        for _ in range(n_set):
            Es.append((gen_emp(rng), with_sizes()))
    else:
        import ast
        vin = replay.get("violation", replay).get("input", {})
        sz = vin.get("size")
        sz = tuple(sz) if isinstance(sz, list) else sz
        if vin.get("cls") == "Quadratic":
            Qs.append(((C.unhex(vin["a"]), C.unhex(vin["b"]), vin["c"], vin["convex"]), [(sz, vin["generator_seed"])]))
        elif vin.get("cls") == "NoisyQuadratic":
            Ns.append(((C.unhex(vin["a"]), C.unhex(vin["b"]), vin["c"], C.unhex(vin["o"]), vin["convex"]),
                       [(sz, vin["generator_seed"])]))
        elif vin.get("cls") == "Empirical":
            Es.append((([C.unhex(v) for v in vin["ys"]], None if vin["ws"] is None else [C.unhex(v) for v in vin["ws"]]),
                       [(sz, vin["generator_seed"])]))
            replay_muts = list(vin.get("caller_modified_its_arrays_in_place") or [])
        elif vin.get("cls") in ("q", "n", "e", "ea"):
            oracle_jobs.append((vin["cls"], ast.literal_eval(vin["params"].replace("inf", "1e999")), vin["N"], vin["generator_seed"], vin.get("draws", "array")))

    def check_shape(cls, inp, size, x):
        shp = expected_shape(size)
        if np.shape(x) != shp:
            rep.violate(what=f"{cls}.sample(size={size!r}) has shape {np.shape(x)}, requested {shp}", input=inp,
                        expected=list(shp), observed=list(np.shape(x)), call=f"{cls}.sample")
            return False
        if size is None and not np.isscalar(x):
            rep.violate(what=f"{cls}.sample(size=None) is not a scalar", input=inp, observed=type(x).__name__,
                        call=f"{cls}.sample")
            return False
        return True

    # ------------------------------------------------------------------ Quadratic
    for (a, b, c, convex), szs in Qs:
        d = QD(a, b, c, convex=convex)
        rep.count("quadratic")
        rep.count("quadratic a==b" if a == b else "quadratic a<b")
        for size, gs in szs:
            g = np.random.default_rng(gs)
            h = clone(g)
            inp = dict(cls="Quadratic", a=C.fhex(a), b=C.fhex(b), c=c, convex=convex, size=size, generator_seed=gs)
            try:
                x = d.sample(size, generator=g)
            except Exception as e:  # noqa: BLE001
                rep.violate(what=f"QuadraticDistribution.sample(size={size!r}) raised on a valid size (the property: a scalar for None, an array of exactly the requested shape otherwise, empty shapes included)",
                            error=repr(e), input=inp, call="QuadraticDistribution.sample")
                continue
            u = h.uniform(0., 1., size=size)
            if not check_shape("QuadraticDistribution", inp, size, x):
                continue
            if not same_state(g, h):
                rep.disagree(op="quadratic.sample", note="generator not advanced by exactly uniform(0,1,size)", input=inp)
                suspects.append(("q", (a, b, c, convex)))
            xs, us = np.ravel(x), np.ravel(u)
            lib = np.ravel(d.ppf(u))
            if not np.array_equal(xs, lib):
                rep.disagree(op="quadratic.sample", note="sample != ppf(uniform) bitwise", input=inp)
                suspects.append(("q", (a, b, c, convex)))
            if np.any(xs < a) or np.any(xs > b) or np.any(xs != xs):
                rep.violate(what="QuadraticDistribution.sample left the support [a,b]", input=inp,
                            observed=[float(v) for v in xs if not (a <= v <= b)][:3], call="QuadraticDistribution.sample")
            if len(us):
                reqs.append(("rng.quad", f"{C.fhex(a)} {C.fhex(b)} {c} {int(convex)} {C.flist(us)}"))
                meta.append(("q", inp, xs, (a, b, c, convex)))
            else:
                rep.case(("q-empty", a, b, c, convex, repr(size)))

    # ------------------------------------------------------------------ Noisy
    for (a, b, c, o, convex), szs in Ns:
        d = NQ(a, b, c, o, convex=convex)
        rep.count("noisy")
        rep.count("noisy o==0" if o == 0 else "noisy o>0")
        for size, gs in szs:
            g = np.random.default_rng(gs)
            h, h2 = clone(g), clone(g)
            inp = dict(cls="NoisyQuadratic", a=C.fhex(a), b=C.fhex(b), c=c, o=C.fhex(o), convex=convex, size=size,
                       generator_seed=gs)
            try:
                x = d.sample(size, generator=g)
            except Exception as e:  # noqa: BLE001
                rep.violate(what=f"NoisyQuadraticDistribution.sample(size={size!r}) raised on a valid size (the property: a scalar for None, an array of exactly the requested shape otherwise, empty shapes included)",
                            error=repr(e), input=inp, call="NoisyQuadraticDistribution.sample")
                continue
            u = h.uniform(0., 1., size=size)
            z = h.normal(0, o, size=size)
            u2 = h2.uniform(0., 1., size=size)
            zstd = h2.standard_normal(size=size)
            if not check_shape("NoisyQuadraticDistribution", inp, size, x):
                continue
            if not same_state(g, h):
                rep.disagree(op="noisy.sample", note="generator not advanced by exactly uniform(size); normal(size)", input=inp)
                suspects.append(("n", (a, b, c, o, convex)))
            if not (same_state(h, h2) and np.array_equal(np.ravel(z), np.ravel(0 + o * zstd))):
                rep.notes.append("numpy: normal(0,o) is not 0 + o*standard_normal bitwise; model replay uses normal() directly")
                zstd = None
            with np.errstate(all="ignore"):
                quad = a + (b - a) * u ** (2 / c) if convex else b - (b - a) * (1 - u) ** (2 / c)
            if not np.array_equal(np.ravel(x), np.ravel(quad + z)):
                rep.disagree(op="noisy.sample", note="sample != quadratic part of uniform + normal(0,o) bitwise", input=inp)
                suspects.append(("n", (a, b, c, o, convex)))
            xs, us = np.ravel(x), np.ravel(u)
            if len(us) and zstd is not None:
                reqs.append(("rng.noisy", f"{C.fhex(a)} {C.fhex(b)} {c} {C.fhex(o)} {int(convex)} {C.flist(us)} "
                                          f"{C.flist(np.ravel(zstd))}"))
                meta.append(("n", inp, xs, (a, b, c, o, convex)))
            else:
                rep.case(("n-empty", a, b, c, o, convex, repr(size)))

    # ------------------------------------------------------------------ Empirical
    # Axis "the caller's arrays" (own generator): about half of the empirical settings are built from float64 ndarrays that the CALLER keeps
    # and modifies in place (`gen_emp.caller_mutation`: sort / reverse / negate / refill with the next sample / permute, zero or renormalise
    # the weights) straight after construction and again before every sample() call.  The model, the atom set and the oracle work on the
    # lists the arrays were made from: sample() draws from the sample given at construction, the one the instance's cdf describes.
    rng_m = C.rng_for("C13/caller-arrays", seed)
    for (ys, ws), szs in Es:
        from_arrays = (rng_m.random() < 0.5) if replay is None else bool(replay_muts)
        muts, todo = [], list(replay_muts or [])
        with warnings.catch_warnings():
            warnings.simplefilter("ignore")
            if from_arrays:
                ys_arr, ws_arr = np.array(ys, dtype=float), None if ws is None else np.array(ws, dtype=float)
                d = ED(ys_arr, ws=ws_arr)
                rep.count("empirical built from the caller's ndarrays, modified in place afterwards")
            else:
                d = ED(ys, ws=ws)
        if from_arrays:
            ws_model = ws                       # the kept copy
        else:
            ws_model = d.ws
        weighted = d.ws is not None            # the constructor turns explicit equal weights into None
        rep.count("empirical weighted" if weighted else "empirical unweighted")
        if len(set(ys)) < len(ys):
            rep.count("empirical ties")
        if weighted and any(w == 0 for w in ws):
            rep.count("empirical zero weight")
        atoms_pos = set(y for y, w in zip(ys, ws) if w > 0) if weighted else set(ys)
        for size, gs in szs:
            g = np.random.default_rng(gs)
            h = clone(g)
            inp = dict(cls="Empirical", ys=[C.fhex(v) for v in ys], ws=None if ws is None else [C.fhex(v) for v in ws],
                       size=size, generator_seed=gs)
            if from_arrays:
                if replay is not None:
                    while todo:                 # a replay has the one sample() call that failed: everything the caller did before it comes first
                        muts.append(G.apply_statement(todo.pop(0), ys_arr, ws_arr))
                else:
                    muts.append(G.caller_mutation(rng_m, ys_arr, ws_arr))
                inp.update(caller_modified_its_arrays_in_place=list(muts),
                           sequence="ys = np.array(ys); ws = None if ws is None else np.array(ws); d = EmpiricalDistribution(ys, ws=ws); <the statements "
                                    "above, earlier sample() calls in between>; d.sample(size, generator=np.random.default_rng(generator_seed))")
            try:
                x = d.sample(size, generator=g)
            except Exception as e:  # noqa: BLE001  (the distribution was valid when it was constructed)
                rep.violate(what="EmpiricalDistribution.sample raised on a validly constructed distribution"
                                 + (" (the caller modified the arrays it had passed to the constructor in place afterwards)" if from_arrays else ""),
                            error=repr(e), input=inp, call="EmpiricalDistribution.sample")
                continue
            if not check_shape("EmpiricalDistribution", inp, size, x):
                continue
            xs = np.ravel(x)
            bad = [float(v) for v in xs if float(v) not in atoms_pos]
            if bad:
                rep.violate(what="EmpiricalDistribution.sample returned a value that is not an atom of positive weight"
                                 + (" of the sample given at construction (the caller modified its arrays in place afterwards)" if from_arrays else ""),
                            input=inp, observed=bad[:3], expected=sorted(atoms_pos)[:12], call="EmpiricalDistribution.sample")
            if weighted:
                u = np.ravel(h.random(size if size is not None else ()))
                if len(u):
                    reqs.append(("rng.choice", f"{C.flist(ys)} {C.flist(ws_model)} {C.flist(u)}"))
                    meta.append(("w", inp, xs, (ys, ws, list(muts)) if from_arrays else (ys, ws)))
            else:
                idx = np.ravel(h.integers(0, len(ys), size=size))
                if len(idx):
                    reqs.append(("rng.index", f"{C.flist(ys)} {C.ilist(idx)}"))
                    meta.append(("u", inp, xs, (ys, ws, list(muts)) if from_arrays else (ys, ws)))
            if not same_state(g, h):
                rep.disagree(op="empirical.sample", note="generator not advanced as by choice(ys, p=ws, size)", input=inp)
                suspects.append(("ea", (ys, ws, list(muts))) if from_arrays else ("e", (ys, ws)))
            if not len(xs):
                rep.case(("e-empty", tuple(ys), None if ws is None else tuple(ws), repr(size)))

    # global default generator path (generator=None): same function of opda.random.DEFAULT_GENERATOR
    for cls_name in (("q", "n", "w") if replay is None else ()):
        sd = rng.randrange(2 ** 32)
        opda.random.set_seed(sd)
        h = np.random.default_rng(sd)
        if cls_name == "q":
            d = QD(0., 1., 3, convex=True); x = d.sample(5); y = d.ppf(h.uniform(0., 1., size=5))
        elif cls_name == "n":
            d = NQ(0., 1., 3, 0.1, convex=True); x = d.sample(5)
            y = 0. + (1. - 0.) * h.uniform(0., 1., size=5) ** (2 / 3); y = y + h.normal(0, 0.1, size=5)
        else:
            d = ED([1., 2., 3.], ws=[.2, .3, .5]); x = d.sample(5); y = h.choice(np.array([1., 2., 3.]), p=[.2, .3, .5], size=5)
        rep.case(("global", cls_name, sd))
        if not np.array_equal(x, y) or not same_state(opda.random.DEFAULT_GENERATOR, h):
            rep.disagree(op="sample(generator=None)", note="does not draw from opda.random.DEFAULT_GENERATOR as from an explicit one",
                         input=dict(cls=cls_name, seed=sd))

    # ------------------------------------------------------------------ model comparison
    replies = drv.run(reqs)
    for (kind, inp, xs, params), r in zip(meta, replies):
        if r is None:
            rep.disagree(op=f"model {kind}", note="model rejected a valid input", input=inp)
            continue
        if kind in ("q", "n"):
            for i, xv in enumerate(xs):
                mv, spread = C.unhex(r[2 * i]), C.unhex(r[2 * i + 1])
                rep.case((kind, inp["a"], inp["b"], inp["c"], inp.get("o"), inp["convex"], inp["generator_seed"], repr(inp["size"]), i),
                         sample=dict(op=kind, input=inp, i=i, impl=float(xv), model=mv, spread=spread) if i == 0 else None)
                allow = 16 * spread + 8 * max(ulp(xv), ulp(mv)) if spread == spread else INF
                if allow == INF:
                    rep.skip("float model ill-conditioned (nan under jitter)")
                    continue
                if not (abs(float(xv) - mv) <= allow):
                    rep.disagree(op=f"model {kind}", note="sample differs from the Float model beyond the jitter allowance",
                                 input=inp, index=i, impl=float(xv), model=mv, spread=spread)
                    suspects.append((kind, params))
        else:
            step = 2 if kind == "w" else 1
            for i, xv in enumerate(xs):
                tok = r[step * i]
                if kind == "w":
                    margin = C.parse_ext(r[2 * i + 1])
                    if margin <= TOL:
                        rep.skip("u within 1e-12 of a cumulative weight (float cumsum may round either way)")
                        continue
                rep.case((kind, tuple(inp["ys"]), None if inp["ws"] is None else tuple(inp["ws"]), inp["generator_seed"], repr(inp["size"]), i),
                         sample=dict(op=kind, input=inp, i=i, impl=float(xv), model=tok) if i == 0 else None)
                if tok == "-":
                    rep.disagree(op=f"model {kind}", note="model index out of range", input=inp, index=i)
                    continue
                mv = C.parse_ext(tok)
                ok = (float(xv) == mv) if isinstance(mv, float) else (abs(float(xv)) != INF and Fr(float(xv)) == mv)
                if not ok:
                    rep.disagree(op=f"model {kind}", note="sample is not the observation the exact model picks",
                                 input=inp, index=i, impl=float(xv), model=tok)
                    suspects.append(("ea" if len(params) == 3 else "e", params))

    # ------------------------------------------------------------------ Spec oracle (the property's own DKW test)
    def oracle(kind, params, n_draws, oseed, mode="array"):
        g = np.random.default_rng(oseed)
        eps = dkw_radius(n_draws)
        with warnings.catch_warnings():
            warnings.simplefilter("ignore")
            if kind == "q":
                a, b, c, convex = params
                d = QD(a, b, c, convex=convex)
                acc = 1e-6 if c == 1 else 1e-9
            elif kind == "n":
                a, b, c, o, convex = params
                d = NQ(a, b, c, o, convex=convex)
                w = b - a
                if o == 0 or w == 0 or o >= 1e-6 * w:
                    acc = 2.5e-5
                else:
                    acc = 0.83 * math.sqrt(o / w) if c == 1 else 0.4 * c * o / w
            elif kind == "ea":
                # built from the caller's ndarrays, which the caller then modifies in place (the recorded statements); the draws are compared
                # with the instance's own cdf, as the property prescribes, at the observations given at construction
                ys, ws, stmts = params
                ys_arr, ws_arr = np.array(ys, dtype=float), None if ws is None else np.array(ws, dtype=float)
                d = ED(ys_arr, ws=ws_arr)
                for st in stmts:
                    G.apply_statement(st, ys_arr, ws_arr)
                acc = 1e-12
            else:
                ys, ws = params
                d = ED(ys, ws=ws)
                acc = 1e-12
            # the N draws arrive the way a caller may ask for them: one array, N separate scalar draws (size=None), a matrix,
            # or many short arrays -- the law of the draws may not depend on the shape they are requested in
            if mode == "scalar":
                xs = np.array([d.sample(None, generator=g) for _ in range(n_draws)], dtype=float)
            elif mode == "matrix":
                xs = np.ravel(d.sample((n_draws // 40, 40), generator=g))
            elif mode == "chunks":
                xs = np.concatenate([np.ravel(d.sample(7, generator=g)) for _ in range(n_draws // 7)])
            else:
                xs = np.ravel(d.sample(n_draws, generator=g))
            xs = np.sort(xs)
            n_draws = len(xs)
            eps = dkw_radius(n_draws)
            if kind in ("q", "n") and not (kind == "q" and params[0] == params[1]) and not (kind == "n" and params[0] == params[1] and params[3] == 0):
                F = d.cdf(xs)
                i = np.arange(1, n_draws + 1)
                dist = float(max(np.max(i / n_draws - F), np.max(F - (i - 1) / n_draws)))
                pm = None
            else:
                vals = np.unique(np.concatenate([xs, np.ravel(d.ys) if kind == "e" else np.array(params[0], dtype=float) if kind == "ea" else xs]))
                Fn = np.searchsorted(xs, vals, side="right") / n_draws
                dist = float(np.max(np.abs(Fn - d.cdf(vals))))
                pm = None
                if kind in ("e", "ea"):
                    fq = (np.searchsorted(xs, vals, side="right") - np.searchsorted(xs, vals, side="left")) / n_draws
                    pm = float(np.max(np.abs(fq - d.pmf(vals))))
        return dist, pm, eps, acc

    def run_oracle(kind, params, n_draws, why, oseed=None, mode="array"):
        oseed = rng.randrange(2 ** 32) if oseed is None else oseed
        if mode == "scalar":
            n_draws = min(n_draws, 20000)
        try:
            dist, pm, eps, acc = oracle(kind, params, n_draws, oseed, mode)
        except Exception as e:  # noqa: BLE001
            if kind != "ea":
                raise
            rep.violate(what="EmpiricalDistribution.sample raised on a validly constructed distribution (the caller modified the arrays it had passed "
                             "to the constructor in place afterwards)", error=repr(e),
                        input=dict(cls=kind, params=repr(params), N=n_draws, generator_seed=oseed, reason=why, draws=mode), call="EmpiricalDistribution.sample")
            return False
        rep.case(("oracle", kind, repr(params), n_draws, oseed, mode))
        rep.count("oracle runs")
        rep.count("oracle draws requested as " + mode)
        ok = dist <= eps + acc and (pm is None or pm <= 2 * eps + acc)
        if not ok:
            rep.violate(what="sup|ECDF_N - cdf| exceeds the DKW radius sqrt(ln(2e12)/(2N)) plus the class accuracy"
                             if dist > eps + acc else "an atom's sampled frequency differs from its weight by more than 2x the DKW radius",
                        input=dict(cls=kind, params=repr(params), N=n_draws, generator_seed=oseed, reason=why, draws=mode),
                        expected=eps + acc, observed=dist if dist > eps + acc else pm,
                        call={"q": "QuadraticDistribution.sample", "n": "NoisyQuadraticDistribution.sample",
                              "e": "EmpiricalDistribution.sample",
                              "ea": "ys, ws, statements = params; ys = np.array(ys); ws = None if ws is None else np.array(ws); d = EmpiricalDistribution(ys, "
                                    "ws=ws); exec(statements)  # the caller modifies its own arrays in place; then d.sample(...) against d.cdf"}[kind])
        return ok

    n_or = 4000 if tier == "quick" else 200000
    k_or = 6 if tier == "quick" else 40
    for kind, params, n_draws, oseed, mode in oracle_jobs:
        run_oracle(kind, params, n_draws, "replay", oseed, mode)
    MODES = ("array", "scalar", "matrix", "chunks")
    for it in range(k_or if replay is None else 0):
        a, b, c, convex = gen_quad(rng)
        run_oracle("q", (a, b, c, convex), n_or, "routine", mode=MODES[it % 4])
        w = b - a
        o = rng.choice([0.0, 1e-8, 1e-3, 0.1, 1.0, 10.0]) * (w if w > 0 else 1.0)
        run_oracle("n", (a, b, c, o, convex), n_or, "routine", mode=MODES[(it + 1) % 4])
        ys, ws = gen_emp(rng)
        run_oracle("e", (ys, ws), n_or, "routine", mode=MODES[(it + 2) % 4])     # samples with +-inf atoms included
        ys, ws = gen_emp(rng_m)
        st_a, st_w = np.array(ys, dtype=float), None if ws is None else np.array(ws, dtype=float)
        stmts = [G.caller_mutation(rng_m, st_a, st_w) for _ in range(rng_m.choice([1, 1, 2]))]
        run_oracle("ea", (ys, ws, stmts), n_or, "routine: the caller modifies the arrays it built the distribution from", mode=MODES[(it + 3) % 4])
    # every scale: the same family at tiny and huge absolute scales (absolute thresholds on o or b-a show only there), and a = b with tiny o
    for _ in range(3 if replay is None else 0):
        c, convex = rng.randint(1, 10), rng.random() < 0.5
        w = 10.0 ** rng.choice([rng.uniform(-9, -6), rng.uniform(-9, -6), rng.uniform(6, 9)])
        sfac = rng.choice([1e-3, 0.1, 1.0, 10.0])
        a = w * rng.choice([0.0, -1.0, 2.5])
        run_oracle("n", (a, a + w, c, sfac * w, convex), n_or, "routine: extreme absolute scale")
    if replay is None:
        a0 = rng.choice([0.0, 1.0, -2.5])
        run_oracle("n", (a0, a0, rng.randint(1, 10), 10.0 ** rng.uniform(-9, -6), rng.random() < 0.5), n_or, "routine: a = b with tiny noise")
    if replay is None and tier != "quick":
        # the noiseless density of c = 1 is unbounded at one end point, so noise of relative size s moves ~0.41 sqrt(s) of the mass across it:
        # the one place where a noise ratio of 1e-6 .. 1e-3 is visible in the distribution function -- at N >= 1e6 (radius 0.0038)
        for _ in range(4):
            w = 10.0 ** rng_m.uniform(-3, 3)
            a_ = w * rng_m.choice([0.0, -1.0, 2.5])
            run_oracle("n", (a_, a_ + w, 1, 10.0 ** rng_m.uniform(-6, -3) * w, rng_m.random() < 0.5), 1_000_000, "routine: c = 1, noise ratio in [1e-6, 1e-3]")
    seen = set()
    unresolved = []    # noisy settings whose deterministic tie broke and which every oracle pass so far accepted
    for kind, params in suspects:
        key = repr((kind, params))
        if key in seen or len(seen) >= 10:
            continue
        seen.add(key)
        k2 = {"w": "e", "u": "e"}.get(kind, kind)
        why_ = "the deterministic tie to the model broke for this setting"
        ok_all = run_oracle(k2, params, 200000, why_)
        for m_ in ("scalar", "matrix", "chunks"):
            # the shape the draws were requested in is part of the setting: try the others too
            ok_all = run_oracle(k2, params, 20000, why_, mode=m_) and ok_all
        if ok_all and k2 == "n" and len(seen) <= 3:
            # failing-input search, second stage: the same (c, shape) on other members of the location-scale family and other noise
            # ratios (an absolute threshold on o or on b-a manifests only at some absolute scales)
            a_, b_, c_, o_, cv_ = params
            found = False
            for w2 in (1e-8, 1e-5, 1e-2, 1e4):
                for s2 in (1e-3, 0.1, 1.0, 10.0):
                    if found:
                        break
                    found = not run_oracle("n", (0.0, w2, c_, s2 * w2, cv_), 20000, "scale image of a setting whose deterministic tie broke")
            if not found:
                for o2 in (1e-9, 1e-7, 1e-4):
                    if found:
                        break
                    found = not run_oracle("n", (a_, a_, c_, o2, cv_), 20000, "a = b image of a setting whose deterministic tie broke")
            ok_all = not found
        if ok_all and k2 == "n":
            unresolved.append(params)

    # failing-input search, third stage (escalation; at most 3 settings, only when a tie broke and nothing above found a failing input):
    # the draw differs from "quadratic part of uniform + normal(0, o)" at (a, b, c, o) but 200 000 draws (radius 0.0084) cannot tell.  Go to
    # where the difference is most amplified -- the sibling with c = 1 (unbounded density at an end point: a change of the noise of relative
    # size s moves ~sqrt(s) of the mass, against ~s for c >= 2), at the largest noise ratio o/(b-a) at which the tie is still broken (scan
    # upwards from the suspect's ratio with the cheap deterministic test, then bisect) -- and ask the oracle with N = 4 000 000 draws
    # (radius 0.0019); then the suspect's own setting at that N.
    def tie_broken(a, b, c, o, convex):
        g = np.random.default_rng(20240229)
        h = clone(g)
        x = NQ(a, b, c, o, convex=convex).sample(16, generator=g)
        u = h.uniform(0., 1., size=16)
        z = h.normal(0, o, size=16)
        with np.errstate(all="ignore"):
            quad = a + (b - a) * u ** (2 / c) if convex else b - (b - a) * (1 - u) ** (2 / c)
        return not (same_state(g, h) and np.array_equal(x, quad + z))

    unresolved.sort(key=lambda p_: (p_[2] != 1, -(p_[3] / (p_[1] - p_[0]) if p_[1] > p_[0] else 0.0)))
    found = False
    for a_, b_, c_, o_, cv_ in (unresolved[:3] if not rep.violations else []):      # a failing input has been found already: nothing to search for
        if found:
            break
        w_ = b_ - a_
        if w_ > 0:
            r_lo = max(o_ / w_, 1e-9)
            if tie_broken(a_, b_, 1, r_lo * w_, cv_):
                r_hi = r_lo
                while r_hi < 4.0 and tie_broken(a_, b_, 1, 2 * r_hi * w_, cv_):
                    r_hi *= 2
                r_lo, r_hi = r_hi, 2 * r_hi           # broken at r_lo; not broken (or out of range) at r_hi
                for _ in range(6):
                    mid_ = math.sqrt(r_lo * r_hi)
                    if tie_broken(a_, b_, 1, mid_ * w_, cv_):
                        r_lo = mid_
                    else:
                        r_hi = mid_
                rep.count("escalation: c = 1 sibling at the largest noise ratio with a broken tie, N = 4e6")
                found = not run_oracle("n", (a_, b_, 1, r_lo * w_, cv_), 4_000_000,
                                       f"escalation: the deterministic tie broke at (a, b, c, o, convex) = {(a_, b_, c_, o_, cv_)!r}; this is its c = 1 sibling at the "
                                       "largest noise ratio o/(b-a) at which the tie is still broken")
        if not found:
            rep.count("escalation: the setting whose tie broke, N = 4e6")
            found = not run_oracle("n", (a_, b_, c_, o_, cv_), 4_000_000, "escalation: the deterministic tie to the model broke for this setting")

    if np.random.get_state()[1].tobytes() != legacy0:
        rep.violate(what="sample() changed numpy's legacy global random state", input={}, call="sample")

    return rep.result(
        rule="per class: random parameter/weight settings (a=b point masses, widths 1e-6..1e6, c 1..10, both shapes, o in "
             "{0,1e-3,.1,1,10}x(b-a); samples with ties, ±inf, zero/tiny weights, ws=None) x size in {None,k,(k1,k2),0} x a "
             "fresh generator seed; a case is one sampled element compared with the model (Float model within "
             "16 x jitter spread + 8 ulp; exact-rational model exactly), plus shape/support/generator-state checks per call "
             "and the DKW oracle per setting; distinct = distinct (setting, seed, size, index). Empirical class, the caller's arrays (own "
             "generator): about half of the settings are built from float64 ndarrays that the caller modifies in place (sort/reverse/negate/"
             "refill/one entry; permute/zero/renormalise weights) after construction and before every sample() call -- atoms, exact model and "
             "oracle use the sample given at construction (oracle kind 'ea': the statements are part of the setting). Failing-input search "
             "for a noisy setting whose tie broke: 200 000 draws + 3 x 20 000 in other request shapes, scale images, then (<= 3 settings) the "
             "c = 1 sibling at the largest noise ratio with a broken tie and the setting itself at N = 4 000 000. Thorough tier: c = 1 with "
             "noise ratio 1e-6..1e-3 at N = 1 000 000.",
        extra=dict(driver_lines=drv.lines))


if __name__ == "__main__":
    C.main(run)
