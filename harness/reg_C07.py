REG = dict(
    uses_table=True,
    harnesses=["corr_C07"],
    timeout=dict(quick=900, thorough=7200),
    trusted_base=[
        "|cdf(ppf(q)) - q| <= 1e-5 is a THEOREM in exact real arithmetic for even c (all regimes except the point mass: "
        "cdf_ppf_even_all_regimes_partial: the even-c model cdf is the Gaussian mixture, monotone, k/(b-a)-Lipschitz, tails <= Phi(-6) "
        "<= exp(-18)); for odd c in the series regime the model's cdf is only 1.02*max_error-close to the (monotone, Lipschitz) Spec, and "
        "the robust-bisection theorem gives |cdf(ppf q) - q| <= 2*1.02*max_error(entry) + (c/2)(1+12o/(b-a))/2^30 + Phi(-6) "
        "(cdf_ppf_odd_shipped_table_partial; c = 1 with 0.4(12+(b-a)/o)/2^30 instead), which is <= 1e-5 - a THEOREM in exact real "
        "arithmetic - exactly for c = 9 (all scales), c = 5 with o/(b-a) < 1/5 and c = 3 with o/(b-a) < 1/50 "
        "(cdf_ppf_odd_tolerance_partial); for c = 1, c = 7 and the larger scales of c = 3, 5 the 1e-5 stays a numerical fact, and "
        "under IEEE rounding it is measured on every run with the code's own cdf",
        "scipy.special.erfinv (normal regime) is a black box: the model inverts its own erf/erfc by bisection and is compared to "
        "1e-8*(b-a+12o); normal_ppf(0) = -inf, normal_ppf(1) = +inf are compared, not proved",
        "IEEE-754 rounding is not modelled: a bisection decision cdf(mid) < q may flip between libm's when |cdf(mid)-q| is inside "
        "the jitter allowance of the model's cdf; the model reports the first such step k and a difference <= 2(b-a+12o)/2^k is "
        "then skipped as a near-tie (counted in the evidence)",
        "tools/translate_table.py (JSON -> Lean bit patterns) for the shipped approximation table the model's cdf reads",
    ],
    assumptions=[
        "q in [0, 1]; a <= b finite, c in 1..10, o >= 0 with o/(b-a) in {0} u [1e-9, 1e4]",
        "the inverse clause |cdf(ppf q) - q| <= 1e-5 does not apply to the point mass a=b, o=0 (its cdf jumps from 0 to 1)",
        "ppf(0)=a / ppf(1)=b in the noiseless regime is read up to the rounding of a+(b-a) (4 ulp)",
    ],
)
TEXT = dict(
    level="Universal Lean theorems about the polymorphic Opda.Noisy.ppf the driver runs at Float: its bisection is literally "
          "Bisect.run, so the result is non-decreasing in q for an ARBITRARY cdf (no monotonicity of the float cdf assumed), also "
          "across the explicit -inf/+inf end values; bracket invariant a-6o <= lo <= result <= hi <= b+6o with width "
          "(b-a+12o)/2^30; conditional accuracy for a monotone L-Lipschitz cdf, and for a cdf that is only eps-close to a monotone "
          "L-Lipschitz function (robust bisection: residual <= 2 eps + L*width + tail); UNCONDITIONALLY for even c over R (series, normal and "
          "noiseless regimes), |cdf(ppf q) - q| <= 1e-5 (the even-c model cdf is the Gaussian mixture: monotone, c/(2(b-a))-Lipschitz, "
          "Chernoff tail bound Phi(-6) <= exp(-18) proved from the Gaussian mgf); for odd c over R with the shipped table (series regime) "
          "|cdf(ppf q) - q| <= 2*1.02*max_error(selected entry) + (c/2)(1+12o/(b-a))/2^30 + Phi(-6), hence <= 1e-5 for c = 9 at every "
          "scale, c = 5 at o/(b-a) < 1/5, c = 3 at o/(b-a) < 1/50 (the Spec is monotone, (c/2)/(b-a)-Lipschitz for c >= 2 and "
          "0.4/o-Lipschitz for every c; kernel check of the regenerated table); the end-point decision table (point mass constant, "
          "-inf/+inf in the series regime, a/b and the closed form in the noiseless regime incl. o=0, mean+sd*Phi^-1 in the normal "
          "regime, the o==0 clip branch unreachable); over R the noiseless closed forms are exact inverses, cdf(ppf q) = q. Tied to the code on every run to 1e-8(b-a+12o), exact at q in {0,1}; the "
          "inverse clause, monotonicity and shapes are evaluated on the implementation every run.",
    note="The 1e-5 inversion accuracy is a theorem in exact arithmetic for even c, and for odd c in the series regime for c = 9 (all "
         "scales), c = 5 (o/(b-a) < 1/5), c = 3 (o/(b-a) < 1/50); for the other odd settings (c = 1, c = 7, larger scales of c = 3, 5) "
         "the proved bound 2*1.02*max_error + ... exceeds 1e-5 (1.6e-5 for c = 7, up to 1.6e-3 for c = 1) and the 1e-5 is measured, not "
         "proved; IEEE rounding is measured; erfinv is a compared black box; near-tie bisection decisions are skipped and counted.",
)
