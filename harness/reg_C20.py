REG = dict(
    trusted_base=[
        "scipy.optimize.differential_evolution is a black box: it supplies y_max (= b) of get_approximation_parameters and "
        "y_argmin/y_argmax of Simulation.run; the theorems take its output as a parameter (tail exactness) or as a named "
        "hypothesis (y_min <= yss <= y_max *given* optimality on the box); the check accepts its accuracy (b within 1e-7 "
        "relative of the true maximum of the generated quadratic) and counts as skipped the runs in which it returns a local "
        "or imprecise optimum of the multimodal damped sine (the exclusion the property itself states)",
        "autograd.hessian and np.linalg.eigvals are black boxes: the model takes the Hessian eigenvalues as a parameter; the "
        "harness feeds it the eigenvalues it generated (A = Q diag(lam) Q^T) and compares the returned a at 1e-9 relative",
        "numpy.random.Generator.uniform is a black box (parameter `us` of the model); only determinism, the advance of the "
        "supplied generator and membership of every sample in the box are checked, not uniformity",
        "the Lean Float reading of the model (platform libm pow/exp behind Lean's Float, Gamma at half-integers by the exact "
        "recursion from Gamma(1)=1, Gamma(1/2)=sqrt(pi)); no theorem connects Float to the reals, the gap is measured "
        "(jitter allowance) and by mpmath as the Spec oracle for ellipse_volume and the exact tail probability",
        "IEEE-754 rounding inside numpy is not modelled: theorems are about exact real arithmetic; in particular "
        "lo + (hi - lo) * u <= hi is proved over ordered fields and *checked* on the returned floats",
        "the objective handed to the code (b - (x-x*)^T A (x-x*)/2 written with autograd.numpy) is what the theorems call "
        "quadObjective A x0 b; that its Hessian is -A is by inspection, not proved in Lean",
    ],
    assumptions=[
        "strictly concave quadratic objectives, d in 1..6, curvature eigenvalues in [0.5, 5], |b| <= 3, optimum inside the box, "
        "boxes containing the level ellipsoid {f >= b - t0}, t0 in [0.5, 3]",
        "the tail identity is checked (and proved) at levels y in [a, b] whose level ellipsoid {f >= y} lies inside the box; "
        "the ellipsoid at level a has exactly the volume of the box (theorem level_a_fills_box), so containment at level a "
        "itself is possible only in d = 1 with the optimum centred, a family the harness includes",
        "Simulation.run with make_damped_linear_sin objectives, n_dims in 1..4, finite bounds, no NaN in yss",
    ],
    timeout=dict(quick=900, thorough=7200),
)
TEXT = dict(
    level="Universal Lean theorems: (i) the model's ellipse_volume is pi^(d/2)/Gamma(d/2+1)*prod(cs), permutation invariant, "
          "homogeneous of degree one in each axis, and IS the Lebesgue volume of {x: sum (x_i/c_i)^2 <= 1} (derived from Mathlib's "
          "volume of the Euclidean ball and the |det| scaling of Lebesgue measure; no volume formula assumed); (ii) for X uniform on a "
          "box and f(x)=b-(x-x0)^T A (x-x0)/2 with A any real positive definite matrix (spectral theorem), the parameters "
          "(a,b,c)=(b-(1/omega)^(2/d), b, d) of the model of get_approximation_parameters satisfy P[f(X)>=y]=P[f(X)>y]=1-cdf_concave(y) "
          "for every y in [a,b] whose level ellipsoid lies in the box (cdf = the polymorphic QuadraticDistribution model at R); the "
          "ellipsoid at level a has exactly the box's volume; (iii) yss_cummax is the running maximum (prefix maximum, monotone, "
          "last = overall maximum, np.maximum.accumulate's recurrence; restated for the driver's term), xs/ys first trial, "
          "yss=func(xss), shapes, samples inside the bounds, y_min<=yss<=y_max given optimality of the optimiser's optima. Tied to "
          "the code on every run: Float model and mpmath for ellipse_volume (d<=12), returned (a,b,c) against the model and the "
          "exact closed-form tail probability on random diagonal and rotated quadratics d=1..6, exact running maximum, "
          "determinism and bookkeeping of Simulation.run.",
    note="Proved: everything in (i)-(iii) over the reals / ordered fields / linear orders. Compared, not proved: float rounding, "
         "differential_evolution (trusted to 1e-7 relative on b; its misses on the multimodal damped sine are counted as skipped), "
         "autograd.hessian, np.linalg.eigvals, Generator.uniform. Observation (not a violation of the property): with the installed "
         "numpy np.linalg.eigvals returns a complex array, so `a` comes back as complex128 with zero imaginary part although the "
         "docstring promises a float.",
)
