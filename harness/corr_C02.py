"""C02 correspondence: confidence_bands vs the exact band model (levels -> placed weights -> step distribution)."""
import copy
import warnings
from fractions import Fraction as Fr

import numpy as np

import common as C
import gen_emp as G
from corr_C03 import as_container, close, same_value

INF = float("inf")
TOL = Fr(1, 10 ** 12)
METHODS = ["dkw", "ks", "ld_equal_tailed", "ld_highest_density"]


def spec_levels(method, n, conf, gen_state):
    """level tables (L_0..L_n, U_0..U_n) written from the documented construction, using only public functions"""
    from scipy import stats
    from opda import utils
    grid = np.arange(n + 1) / n
    if method in ("dkw", "ks"):
        eps = utils.dkw_epsilon(n, conf) if method == "dkw" else stats.kstwo(n).ppf(conf)
        return np.clip(grid - eps, 0., 1.), np.clip(grid + eps, 0., 1.)
    kind = method[3:]
    interval = utils.beta_equal_tailed_interval if kind == "equal_tailed" else utils.beta_highest_density_interval
    coverage = utils.beta_equal_tailed_coverage if kind == "equal_tailed" else utils.beta_highest_density_coverage
    g = np.random.default_rng()
    g.bit_generator.state = copy.deepcopy(gen_state)
    us = g.random((100_000, n))
    us.sort(axis=-1)
    ns = np.arange(1, n + 1)
    ts = 0.
    for i, (a, b) in enumerate(zip(ns, n + 1 - ns)):
        ts = np.maximum(ts, coverage(a, b, us[:, i]))
    cv = np.quantile(ts, conf)
    lo, hi = interval(ns, n + 1 - ns, cv)
    return np.clip(np.concatenate([[0.], lo]), 0., 1.), np.clip(np.concatenate([hi, [1.]]), 0., 1.)


def band_line(ys, a, b, levels):
    return f"{C.fhex(a)} {C.fhex(b)} {C.flist(ys)} {C.flist(levels)}"


def bands(ED, ys, conf, a, b, method, seed):
    g = np.random.default_rng(seed)
    state = copy.deepcopy(g.bit_generator.state)
    with warnings.catch_warnings():
        warnings.simplefilter("ignore")
        out = ED.confidence_bands(ys, conf, a=a, b=b, method=method, generator=g, n_jobs=1)
    return out, state


def ext_key(v):
    """order key of an extended value (float, +-inf, or Fraction)"""
    if isinstance(v, float) and abs(v) == INF:
        return (1 if v > 0 else -1, Fr(0))
    return (0, Fr(v))


def extreme_levels(rx, k=2):
    """(n, q, minimize) whose best-of-n level -- q**(1/n) when maximising, 1-(1-q)**(1/n) when minimising -- lies within 1e-16 .. 1e-7
    (mostly 1e-13 .. 1e-9) of 0 or of 1: the quantifier is "every n > 0 real, every q in [0, 1]", and that is where a tolerance in the
    inversion shows.  The level is reached either through q (tiny q, or q next to 1, with an ordinary n) or through n (an ordinary q
    with n in about 0.01 .. 0.1, or 1e7 .. 1e14)."""
    out = []
    for side in (0, 1):
        for mn in (False, True):
            for _ in range(k):
                t = 10.0 ** (rx.uniform(-13, -9) if rx.random() < 0.7 else rx.uniform(-16, -7))
                if rx.random() < 0.5:      # through q
                    nn = rx.choice([1, 1, 0.5, 2.5, rx.uniform(0.2, 4)])
                    if not mn:
                        q = t ** nn if side == 0 else float(np.exp(nn * np.log1p(-t)))
                    else:
                        q = float(-np.expm1(nn * np.log1p(-t))) if side == 0 else 1.0 - t ** nn
                    how = "q"
                else:                      # through n
                    q = rx.choice([0.5, 0.25, 0.75, rx.uniform(0.05, 0.95)])
                    if not mn:
                        nn = float(np.log(q) / np.log(t)) if side == 0 else float(np.log(q) / np.log1p(-t))
                    else:
                        nn = float(np.log1p(-q) / np.log1p(-t)) if side == 0 else float(np.log1p(-q) / np.log(t))
                    how = "n"
                q = min(1.0, max(0.0, float(q)))
                if nn > 0 and nn == nn and nn != INF:
                    out.append((nn, q, mn, side, how))
    return out


def run(seed, tier, replay=None):
    from opda.nonparametric import EmpiricalDistribution as ED
    rep = C.Report("C02", seed, tier)
    rng = C.rng_for("C02", seed)
    drv = C.Driver()
    n_fast = 120 if tier == "quick" else 1500
    n_ld = 6 if tier == "quick" else 60
    plan = [(rng.choice(["dkw", "ks"]), rng.choice([1, 2, 3, 4, 5, 7, 10, 16, 25, 40])) for _ in range(n_fast)]
    plan += [(["ld_equal_tailed", "ld_highest_density"][i % 2], rng.choice([2, 3, 4, 5, 6] if tier == "quick" else [2, 3, 5, 8, 12]))
             for i in range(n_ld)]
    plan += [("ld_equal_tailed", 1)]
    n_main = len(plan)
    # Strata added later draw from generators of their own (the stream of the cases above does not move).
    # (1) the container the SAMPLE arrives in: integer-valued observations, not in ascending order, handed over as a list of Python ints,
    #     as an integer ndarray of every width (signed and unsigned) that holds the values, and as float32 -- the bands are about the numbers
    rng_c = C.rng_for("C02/sample-containers", seed)
    n_cont = 36 if tier == "quick" else 400
    plan += [(rng_c.choice(["dkw", "ks"]) if i % 12 else ["ld_equal_tailed", "ld_highest_density"][(i // 12) % 2],
              rng_c.choice([2, 3, 4, 5, 7, 10, 16, 25, 40]) if i % 12 else rng_c.choice([2, 3, 5])) for i in range(n_cont)]
    # (2) best-of-n levels next to 0 and next to 1 (every case)
    rng_x = C.rng_for("C02/extreme-levels", seed)
    # (3) the caller's arrays: (i) about half of the float samples are handed over as a float64 ndarray that the caller modifies in place once
    #     the bands are built (and again before the curves are judged) -- the three distributions are about the sample they were given;
    #     (ii) ONE ns object per case goes into hi / pt / lo .quantile_tuning_curve for every q and both directions (the documented way to
    #     invert the band), ONE level array into the three ppf, one point array into every cdf: bit-identical afterwards, every value judged
    rng_m = C.rng_for("C02/caller-arrays", seed)
    reqs, meta = [], []
    for ci, (method, n) in enumerate(plan):
        containers = []
        if ci < n_main:
            ys = G.gen_values(rng, n, allow_inf=False)
            ys = [float(np.clip(v, -1e100, 1e100)) for v in ys]
        else:
            ys, rlabel = G.gen_int_values(rng_c, n)
            containers = C.number_containers(ys, rng_c, k=99)
            rep.count("sample_container:range=" + rlabel)
            rep.count("sample_container:" + ("ascending" if all(x <= y for x, y in zip(ys, ys[1:])) else "unsorted"))
        a, b = G.gen_bounds(rng, ys)
        conf = rng.choice([0.0, 1.0, 0.5, 0.9, 0.95, 1e-12, 1 - 1e-12, rng.random(), rng.random()])
        gseed = rng.randrange(2 ** 31)
        inp = dict(ys=[C.fhex(v) for v in ys], a=C.fhex(a), b=C.fhex(b), confidence=conf, method=method, generator_seed=gseed,
                   ys_float=ys, a_float=a, b_float=b)
        rep.count("method=" + method)
        rep.count("ties" if len(set(ys)) < n else "distinct")
        rep.count("a=" + ("-inf" if a == -INF else "min" if a == min(ys) else "below"))
        rep.count("b=" + ("inf" if b == INF else "max" if b == max(ys) else "above"))
        rep.count("conf=" + ("0" if conf == 0 else "1" if conf == 1 else "interior"))
        ys_arr = np.array(ys, dtype=float) if ci < n_main and rng_m.random() < 0.5 else None
        try:
            (lo, pt, hi), state = bands(ED, ys if ys_arr is None else ys_arr, conf, a, b, method, gseed)
        except Exception as e:
            rep.violate(what="confidence_bands raised on a valid input", error=repr(e), input=inp, call="EmpiricalDistribution.confidence_bands")
            continue
        if ys_arr is not None:
            inp["caller_modified_its_array_in_place"] = [G.caller_mutation(rng_m, ys_arr)]
            inp["sequence"] = "ys = np.array(ys); lo, pt, hi = EmpiricalDistribution.confidence_bands(ys, ...); <the statements above>; then the calls judged"
            rep.count("caller_arrays:sample_ndarray_modified_in_place_after_confidence_bands")
        try:
            with warnings.catch_warnings():
                warnings.simplefilter("ignore")
                L, U = spec_levels(method, n, conf, state)
        except Exception as e:
            rep.notes.append(f"spec levels unavailable for {method} n={n} conf={conf}: {e!r}")
            rep.skip("spec_levels_unavailable")
            continue
        M = np.arange(n + 1) / n
        # premise of the bracket theorem, exact on the tables
        for j in range(n + 1):
            if not (Fr(float(L[j])) <= Fr(j, n) + TOL and Fr(j, n) <= Fr(float(U[j])) + TOL):
                rep.violate(what="level tables do not bracket k/n", input=dict(inp, k=j), observed=[float(L[j]), float(U[j])])
        qs = G.gen_queries(rng, ys, a, b)
        cdf_ri = {}
        for name, d, lev in (("lo", lo, L), ("pt", pt, M), ("hi", hi, U)):
            reqs.append(("band.cdf", f"{band_line(ys, a, b, lev)} {C.flist(qs)}"))
            cdf_ri[name] = len(reqs) - 1
            meta.append(dict(ci=ci, kind="cdf", name=name, d=d, qs=qs, inp=inp, ri=len(reqs) - 1))
        # quantile curves: band ordering, and each curve against the band model's ppf at the specified level
        lv = []
        for nn in (1, 2.5, rng.uniform(0.2, 40)):
            for q in (0.5, rng.random(), 0.0, 1.0):
                for mn in (False, True):
                    level = float(1 - (1 - q) ** (1 / nn)) if mn else float(q ** (1 / nn))
                    lv.append((nn, q, mn, min(1.0, max(0.0, level))))
        for nn, q, mn, side, how in extreme_levels(rng_x, k=1 if tier == "quick" else 3):
            level = float(1 - (1 - q) ** (1 / nn)) if mn else float(q ** (1 / nn))
            level = min(1.0, max(0.0, level))
            lv.append((nn, q, mn, level))
            d0 = level if side == 0 else 1.0 - level
            rep.count("qtc_level:%s_by_%s:%s" % ("next_to_0" if side == 0 else "next_to_1", how,
                                                 "exactly_0_or_1" if d0 == 0 else "within_1e%d" % int(np.ceil(np.log10(d0)))))
        # one ns array for several q (below): lv[:24] is n-major, 3 n x 4 q x 2 directions, but the random q was drawn per n -- add the levels of
        # the first n's random q at the other two n (no new draws), so that every (n, q, direction) of the shared-array calls has its model value
        nns, q_rand, x0 = [lv[0][0], lv[8][0], lv[16][0]], lv[2][1], len(lv)
        for k in (1, 2):
            for mn in (False, True):
                level = float(1 - (1 - q_rand) ** (1 / nns[k])) if mn else float(q_rand ** (1 / nns[k]))
                lv.append((nns[k], q_rand, mn, min(1.0, max(0.0, level))))
        mid = [float(x) / 2 + float(y) / 2 for x, y in zip(L, U)]       # a distribution function inside the band
        for name, d, lev in (("lo", lo, L), ("pt", pt, M), ("hi", hi, U), ("inside", None, mid)):
            reqs.append(("band.ppf", f"{band_line(ys, a, b, lev)} {C.flist([x[3] for x in lv])}"))
            meta.append(dict(ci=ci, kind="qtc" if d is not None else "inside", name=name, d=d, lv=lv, inp=inp, ri=len(reqs) - 1, hi=hi, lo=lo))
        # direct clauses on the code's output
        yq = np.array(qs)
        yq_kept = yq.tobytes()
        cl, cp, ch = lo.cdf(yq), pt.cdf(yq), hi.cdf(yq)
        rep.case(("bracket", tuple(inp["ys"]), inp["a"], inp["b"], conf, method))
        if np.any(cl > cp + 1e-12) or np.any(cp > ch + 1e-12):
            k = int(np.argmax(np.maximum(cl - cp, cp - ch)))
            rep.violate(what="lo.cdf(y) <= pt.cdf(y) <= hi.cdf(y) fails", input=dict(inp, y=C.fhex(qs[k]), y_float=qs[k]),
                        observed=[float(cl[k]), float(cp[k]), float(ch[k])], call="EmpiricalDistribution.confidence_bands")
        if not (pt == ED(ys, a=a, b=b)):
            rep.violate(what="the point estimate is not the empirical distribution of the sample with the given bounds"
                             + (" (the caller modified the array it had passed as the sample in place afterwards)" if ys_arr is not None else ""), input=dict(inp))
        for nn, q, mn, _ in lv:
            with warnings.catch_warnings():
                warnings.simplefilter("ignore")
                t_hi, t_pt, t_lo = (d.quantile_tuning_curve(nn, q=q, minimize=mn) for d in (hi, pt, lo))
            if not (t_hi <= t_pt <= t_lo):
                rep.violate(what="hi.quantile_tuning_curve <= pt.quantile_tuning_curve <= lo.quantile_tuning_curve fails",
                            input=dict(inp, n=nn, q=q, minimize=mn), observed=[float(t_hi), float(t_pt), float(t_lo)],
                            call="EmpiricalDistribution.quantile_tuning_curve")
        qtc_ri = {mt["name"]: mt["ri"] for mt in meta[-4:]}
        meta[-1].update(ri_lo=qtc_ri["lo"], ri_hi=qtc_ri["hi"])
        # the caller's argument objects: `ns = np.array(...); hi.quantile_tuning_curve(ns); pt.quantile_tuning_curve(ns); lo.quantile_tuning_curve(ns)`
        grids = [G.SharedArg(nns, "float64")] + ([G.SharedArg(nns, ("list", "tuple")[(ci // 3) % 2])] if ci % 3 == 0 else [])
        stored = []
        for S in grids:
            rep.count("shared_ns_object:quantile_tuning_curve:" + S.container)
            for qi in range(4):
                for mi, mn in enumerate((False, True)):
                    q = lv[2 * qi][1]               # 0.5, q_rand, 0.0, 1.0
                    vin = dict(inp, ns=nns, ns_container=S.container, q=q, minimize=mn)
                    vals = {}
                    for name, d in (("hi", hi), ("pt", pt), ("lo", lo)):
                        cl_ = f"{name}.quantile_tuning_curve(ns, q={q!r}, minimize={mn})"
                        try:
                            with warnings.catch_warnings():
                                warnings.simplefilter("ignore")
                                out = d.quantile_tuning_curve(S.obj, q=q, minimize=mn)
                        except Exception as e:  # noqa: BLE001
                            S.changed_by(cl_ + f" raised {e!r}")
                            rep.violate(what="quantile_tuning_curve raised on a valid input (one ns object passed to hi, pt and lo)", error=repr(e),
                                        input=dict(vin, band=name, ns_object_now=S.current(), calls_on_this_object=list(S.calls)),
                                        call="EmpiricalDistribution.confidence_bands(...)." + cl_)
                            break
                        dmg = S.changed_by(cl_)
                        if dmg:
                            rep.violate(what="quantile_tuning_curve modified the caller's array in place (hi, pt and lo are to be evaluated on ONE grid ns: the "
                                             "next curve is computed on what this call left there)", input=dict(vin, band=name), expected=nns, observed=dmg,
                                        call="EmpiricalDistribution.confidence_bands(...)." + cl_)
                        if np.shape(out) != (len(nns),):
                            rep.violate(what="quantile_tuning_curve output shape differs from ns shape", input=dict(vin, band=name), observed=list(np.shape(out)))
                            break
                        vals[name] = [float(x) for x in out]
                    if len(vals) < 3:
                        continue
                    rep.case(("qtc-shared-order", S.container, tuple(inp["ys"]), inp["a"], inp["b"], conf, method, qi, mn))
                    for k in range(len(nns)):
                        if not (vals["hi"][k] <= vals["pt"][k] <= vals["lo"][k]):
                            rep.violate(what="hi.quantile_tuning_curve <= pt.quantile_tuning_curve <= lo.quantile_tuning_curve fails (the three curves "
                                             "evaluated on one ns array, in this order)",
                                        input=dict(vin, k=k, n=nns[k], calls_on_this_object=list(S.calls), ns_object_now=S.current()),
                                        observed=[vals["hi"][k], vals["pt"][k], vals["lo"][k]], call="EmpiricalDistribution.quantile_tuning_curve")
                            break
                    stored.append((S, qi, mi, vals, vin))
        meta.append(dict(ci=ci, kind="qtc_arr", name="shared", d=None, lv=lv, inp=inp, ri=qtc_ri["pt"], ris=dict(qtc_ri), stored=stored, nns=nns, x0=x0))
        levs = G.SharedArg([x[3] for x in lv], "float64")
        pp = {}
        for name, d in (("hi", hi), ("pt", pt), ("lo", lo)):
            try:
                pp[name] = [float(x) for x in d.ppf(levs.obj)]
            except Exception as e:  # noqa: BLE001
                rep.violate(what="ppf raised on a valid input (one array of levels passed to hi, pt and lo)", error=repr(e),
                            input=dict(inp, band=name, qs_now=levs.current()), call=f"EmpiricalDistribution.confidence_bands(...).{name}.ppf(qs)")
                continue
            dmg = levs.changed_by(f"{name}.ppf(qs)")
            if dmg:
                rep.violate(what="ppf modified the caller's array in place", input=dict(inp, band=name, qs=[x[3] for x in lv]), observed=dmg,
                            call=f"EmpiricalDistribution.confidence_bands(...).{name}.ppf(qs)")
        meta.append(dict(ci=ci, kind="ppf_arr", name="shared", d=None, lv=lv, inp=inp, ri=qtc_ri["pt"], ris=dict(qtc_ri), pp=pp))
        # the same sample in other containers: judged by the same exact model (the replies of the requests above), plus the direct clauses
        for label, obj in (containers if method in ("dkw", "ks") else containers[:2]):
            inp_c = dict(inp, sample_container=label, ys_values=[int(v) if label != "float32" else v for v in ys])
            rep.count("sample_container=" + label)
            try:
                (lo_c, pt_c, hi_c), _ = bands(ED, obj, conf, a, b, method, gseed)
            except Exception as e:
                rep.violate(what="confidence_bands raised on a valid input", error=repr(e), input=inp_c, call="EmpiricalDistribution.confidence_bands")
                continue
            for name, d in (("lo", lo_c), ("pt", pt_c), ("hi", hi_c)):
                meta.append(dict(ci=ci, kind="cdf", name=name, d=d, qs=qs, inp=inp_c, ri=cdf_ri[name]))
                meta.append(dict(ci=ci, kind="qtc", name=name, d=d, lv=lv, inp=inp_c, ri=qtc_ri[name]))
            meta.append(dict(ci=ci, kind="inside", name="inside", d=None, lv=lv, inp=inp_c, ri=qtc_ri["inside"], ri_lo=qtc_ri["lo"],
                             ri_hi=qtc_ri["hi"], hi=hi_c, lo=lo_c))
            cl_c, cp_c, ch_c = lo_c.cdf(yq), pt_c.cdf(yq), hi_c.cdf(yq)
            rep.case(("bracket", label, tuple(inp["ys"]), inp["a"], inp["b"], conf, method))
            if np.any(cl_c > cp_c + 1e-12) or np.any(cp_c > ch_c + 1e-12):
                k = int(np.argmax(np.maximum(cl_c - cp_c, cp_c - ch_c)))
                rep.violate(what="lo.cdf(y) <= pt.cdf(y) <= hi.cdf(y) fails", input=dict(inp_c, y=C.fhex(qs[k]), y_float=qs[k]),
                            observed=[float(cl_c[k]), float(cp_c[k]), float(ch_c[k])], call="EmpiricalDistribution.confidence_bands")
            if not (pt_c == ED(obj, a=a, b=b)):
                rep.violate(what="the point estimate is not the empirical distribution of the sample with the given bounds", input=inp_c)
            for nn, q, mn, _ in lv:
                with warnings.catch_warnings():
                    warnings.simplefilter("ignore")
                    t_hi, t_pt, t_lo = (d.quantile_tuning_curve(nn, q=q, minimize=mn) for d in (hi_c, pt_c, lo_c))
                if not (t_hi <= t_pt <= t_lo):
                    rep.violate(what="hi.quantile_tuning_curve <= pt.quantile_tuning_curve <= lo.quantile_tuning_curve fails",
                                input=dict(inp_c, n=nn, q=q, minimize=mn), observed=[float(t_hi), float(t_pt), float(t_lo)],
                                call="EmpiricalDistribution.quantile_tuning_curve")
        # rank only: a permutation and a strictly increasing map, same generator seed
        if method in ("dkw", "ks") or ci % 2 == 0:
            perm = list(range(n))
            rng.shuffle(perm)
            ys_p = [ys[i] for i in perm]
            (lo2, pt2, hi2), _ = bands(ED, ys_p, conf, a, b, method, gseed)
            for d1, d2, nm in ((lo, lo2, "lo"), (pt, pt2, "pt"), (hi, hi2, "hi")):
                if np.max(np.abs(d1.cdf(yq) - d2.cdf(yq))) > 1e-12:
                    rep.violate(what=f"{nm} band changes under a permutation of the sample", input=dict(inp, permutation=perm),
                                call="EmpiricalDistribution.confidence_bands")
            gmap = rng.choice(["affine", "affine", "cube", "exp"])
            fn = {"affine": lambda v: 4.0 * v + 8.0, "cube": lambda v: v ** 3 if abs(v) < 1e30 else v, "exp": lambda v: float(np.exp(np.clip(v, -700, 700)))}[gmap]
            pts = sorted(set(ys + [a, b] + qs))
            imgs = [fn(v) if abs(v) != INF else (v if gmap != "exp" else (0.0 if v < 0 else INF)) for v in pts]
            strictly = all(x < y for x, y in zip(imgs, imgs[1:]))
            if strictly and all(abs(fn(v)) != INF for v in ys):
                m = dict(zip(pts, imgs))
                try:
                    (lo3, pt3, hi3), _ = bands(ED, [m[v] for v in ys], conf, m[a], m[b], method, gseed)
                    yq3 = np.array([m[v] for v in qs])
                    for d1, d3, nm in ((lo, lo3, "lo"), (pt, pt3, "pt"), (hi, hi3, "hi")):
                        if np.max(np.abs(d1.cdf(yq) - d3.cdf(yq3))) > 1e-12:
                            rep.violate(what=f"{nm} band changes under the strictly increasing map '{gmap}' of sample, bounds and query",
                                        input=dict(inp, map=gmap), call="EmpiricalDistribution.confidence_bands")
                    rep.count("map=" + gmap)
                except Exception as e:
                    rep.violate(what="confidence_bands raised on the mapped (valid) input", error=repr(e), input=dict(inp, map=gmap))
            else:
                rep.skip("map_not_strictly_increasing_in_floats")
            # widening with the confidence (same seed)
            conf2 = min(1.0, conf + rng.choice([0.0, 1e-9, 0.05, 0.3]))
            (lo4, _, hi4), _ = bands(ED, ys, conf2, a, b, method, gseed)
            if np.any(lo4.cdf(yq) > cl + 1e-12) or np.any(hi4.cdf(yq) < ch - 1e-12):
                rep.violate(what="raising the confidence narrows the band", input=dict(inp, confidence2=conf2),
                            call="EmpiricalDistribution.confidence_bands")
        if yq.tobytes() != yq_kept:
            rep.violate(what="cdf modified the caller's array of points in place (the same array goes into lo.cdf, pt.cdf, hi.cdf and the bands of "
                             "the permuted / mapped / widened variants)", input=dict(inp, ys_queried=[C.fhex(v) for v in qs]),
                        observed=[float(v) for v in yq[:12]], call="EmpiricalDistribution.confidence_bands(...).cdf(points)")
        if ys_arr is not None:
            inp["caller_modified_its_array_in_place"] = inp["caller_modified_its_array_in_place"] + [G.caller_mutation(rng_m, ys_arr)]
    replies = drv.run(reqs)
    for mt in meta:
        r = replies[mt["ri"]]
        inp, d = mt["inp"], mt["d"]
        cont = inp.get("sample_container")
        if r is None:
            rep.disagree(op="band." + mt["kind"], note="model rejected a valid input", input=inp)
            continue
        if mt["kind"] == "cdf":
            impl = d.cdf(np.array(mt["qs"]))
            for y, iv, mv in zip(mt["qs"], impl, r):
                mv = C.parse_ext(mv)
                rep.case(("cdf", cont, mt["name"], tuple(inp["ys"]), inp["a"], inp["b"], inp["confidence"], inp["method"], y),
                         sample=dict(op=f"{mt['name']}.cdf", ys=inp["ys_float"], a=inp["a_float"], b=inp["b_float"], confidence=inp["confidence"],
                                     method=inp["method"], y=y, model=str(mv), impl=float(iv)))
                if not close(iv, mv):
                    rep.violate(what=f"{mt['name']} band: cdf(y) is not the level indexed by the number of sample points <= y "
                                     f"(levels from the documented construction) to 1e-12",
                                input=dict(inp, y=C.fhex(y), y_float=y, band=mt["name"]), expected=str(mv), observed=float(iv),
                                call="EmpiricalDistribution.confidence_bands(...).cdf")
        elif mt["kind"] == "qtc_arr":
            for S, qi, mi, vals, vin in mt["stored"]:
                for name in ("hi", "pt", "lo"):
                    rr = replies[mt["ris"][name]]
                    if rr is None:
                        continue
                    for k, nn in enumerate(mt["nns"]):
                        i = (k * 4 + qi) * 2 + mi if (qi != 1 or k == 0) else mt["x0"] + (k - 1) * 2 + mi
                        assert mt["lv"][i][:3] == (nn, vin["q"], vin["minimize"])
                        mv, margin = C.parse_ext(rr[2 * i]), C.parse_ext(rr[2 * i + 1])
                        if margin <= TOL:
                            rep.skip("qtc_level_within_1e-12_of_a_band_level")
                            continue
                        rep.case(("qtc-shared", S.container, name, tuple(inp["ys"]), inp["a"], inp["b"], inp["confidence"], inp["method"], nn, qi, mi))
                        if not same_value(vals[name][k], mv):
                            rep.violate(what=f"{name} band: quantile_tuning_curve(ns)[k] is not the band distribution's ppf at the best-of-n level of the k-th n the "
                                             f"caller put into the array that it passes to hi, pt and lo",
                                        input=dict(vin, band=name, k=k, n=nn, calls_on_this_object=list(S.calls), ns_object_now=S.current()),
                                        expected=str(mv), observed=vals[name][k], call="EmpiricalDistribution.confidence_bands(...).quantile_tuning_curve(ns)")
        elif mt["kind"] == "ppf_arr":
            for name, out in mt["pp"].items():
                rr = replies[mt["ris"][name]]
                if rr is None or len(out) != len(mt["lv"]):
                    if rr is not None:
                        rep.violate(what="ppf output shape differs from the shape of the levels", input=dict(inp, band=name), observed=len(out))
                    continue
                for i, (nn, q, mn, level) in enumerate(mt["lv"]):
                    mv, margin = C.parse_ext(rr[2 * i]), C.parse_ext(rr[2 * i + 1])
                    if margin <= TOL:
                        rep.skip("ppf_level_within_1e-12_of_a_band_level")
                        continue
                    rep.case(("ppf-shared", name, tuple(inp["ys"]), inp["a"], inp["b"], inp["confidence"], inp["method"], level))
                    if not same_value(out[i], mv):
                        rep.violate(what=f"{name} band: ppf(q) is not inf{{y in [a,b]: q <= cdf(y)}} of the band distribution (one array of levels passed to hi, pt, lo)",
                                    input=dict(inp, band=name, q=C.fhex(level), q_float=level), expected=str(mv), observed=out[i],
                                    call=f"EmpiricalDistribution.confidence_bands(...).{name}.ppf(qs)")
        elif mt["kind"] == "inside":
            # "any CDF lying inside the CDF band has its tuning curve inside the tuning-curve band": F with the levels (L+U)/2 on the
            # same points lies inside the band; its exact quantile must lie between the code's hi and lo curves (levels within 1e-12
            # of a level of lo or hi are the property's own exclusion)
            r_lo, r_hi = replies[mt["ri_lo"]], replies[mt["ri_hi"]]
            for i, (nn, q, mn, level) in enumerate(mt["lv"]):
                mv = C.parse_ext(r[2 * i])
                if r_lo is None or r_hi is None or min(C.parse_ext(r_lo[2 * i + 1]), C.parse_ext(r_hi[2 * i + 1])) <= TOL:
                    rep.skip("qtc_level_within_1e-12_of_a_band_level")
                    continue
                with warnings.catch_warnings():
                    warnings.simplefilter("ignore")
                    t_hi, t_lo = (float(x.quantile_tuning_curve(nn, q=q, minimize=mn)) for x in (mt["hi"], mt["lo"]))
                rep.case(("inside", cont, tuple(inp["ys"]), inp["a"], inp["b"], inp["confidence"], inp["method"], nn, q, mn))
                if not (t_hi == t_hi and t_lo == t_lo and mv is not None and ext_key(t_hi) <= ext_key(mv) <= ext_key(t_lo)):
                    rep.violate(what="a CDF inside the CDF band (levels (L+U)/2) has its quantile tuning curve outside [hi.quantile_tuning_curve, "
                                     "lo.quantile_tuning_curve]", input=dict(inp, n=nn, q=q, minimize=mn, level=level),
                                expected=f"hi curve <= {mv} <= lo curve", observed=[t_hi, t_lo],
                                call="EmpiricalDistribution.confidence_bands(...)[0 and 2].quantile_tuning_curve")
        else:
            for i, (nn, q, mn, level) in enumerate(mt["lv"]):
                mv, margin = C.parse_ext(r[2 * i]), C.parse_ext(r[2 * i + 1])
                if margin <= TOL:
                    rep.skip("qtc_level_within_1e-12_of_a_band_level")
                    continue
                with warnings.catch_warnings():
                    warnings.simplefilter("ignore")
                    iv = d.quantile_tuning_curve(nn, q=q, minimize=mn)
                rep.case(("qtc", cont, mt["name"], tuple(inp["ys"]), inp["a"], inp["b"], inp["confidence"], inp["method"], nn, q, mn))
                if not same_value(iv, mv):
                    rep.violate(what=f"{mt['name']} band: quantile_tuning_curve is not the band distribution's ppf at the best-of-n level",
                                input=dict(inp, n=nn, q=q, minimize=mn, band=mt["name"]), expected=str(mv), observed=float(iv),
                                call="EmpiricalDistribution.confidence_bands(...).quantile_tuning_curve")
    return rep.result(
        rule="samples of 1-40 points (ties, rounded, constant, wide), bounds at min/max/beyond/infinite, confidence in {0,1,1e-12,1-1e-12,"
             ".5,.9,.95,random}; dkw/ks everywhere, ld_* on a few small samples (100 000-trial simulation replayed from a cloned "
             "generator through the public beta helpers). Per case: every band cdf at all atoms/neighbours/midpoints/±inf vs the exact "
             "band model, quantile curves vs the model's ppf, bracket, point estimate, permutation, strictly increasing map, widening. "
             "Quantile curves also at best-of-n levels within 1e-16..1e-7 of 0 and of 1 (reached through tiny q / q next to 1, or through "
             "n in ~0.01..0.1 / 1e7..1e14), incl. a CDF inside the band (levels (L+U)/2) judged exactly against the code's hi/lo curves. "
             "Container stratum: integer-valued unsorted samples as Python ints, every integer dtype (signed and unsigned) that holds them "
             "and float32, each judged by the same exact band model as the float64 sample. The caller's arrays (own generator): half of the "
             "float samples are passed as a float64 ndarray which the caller modifies in place after confidence_bands returned; one ns object "
             "(float64 ndarray; list / tuple on every third case) goes into hi, pt, lo .quantile_tuning_curve for 4 q x 2 directions, one level "
             "array into the three ppf, one point array into every cdf: objects bit-identical afterwards, ordering and every value judged by "
             "the exact band model at the caller's numbers.",
        extra=dict(driver_lines=drv.lines))


if __name__ == "__main__":
    C.main(run)
