"""C19 correspondence: the shipped approximation table vs (a) the translated Lean data, (b) the code that consumes it,
(c) the documented generator, (d) quadrature of the partial moments.

The uniform accuracy bound and the structure are *theorems* re-checked against the regenerated data on every run
(OpdaProofs/Props/C19.lean).  This harness ties the translated data to the file and to the code, looks for a replay
when a certificate could not be produced, and decides the two clauses that involve library code (regeneration,
partial moments)."""
import json
import os
import warnings
from fractions import Fraction as Fr

import numpy as np

import common as C

import mpmath as mp

mp.mp.dps = 40

# the documented generator's (exponent, min_scale, degree tuple) list, pinned by hand from the NOTE in parametric.py
DOCUMENTED = [
    (0.5, 6.5e-1, (1, 1, 2, 2, 3, 4)), (0.5, 1.2e-1, (1, 2, 2, 3, 3, 4, 5, 7)),
    (0.5, 6.5e-2, (1, 2, 2, 3, 3, 4, 4, 5, 6, 7)), (0.5, 3.0e-2, (2, 2, 2, 3, 3, 4, 5, 6, 7, 8)),
    (0.5, 0.0, (2, 2, 2, 3, 3, 4, 5, 6, 7, 11)),
    (1.5, 5.0e-1, (5,)), (1.5, 8.5e-2, (11,)), (1.5, 2.0e-2, (19,)), (1.5, 0.0, (11, 17)),
    (2.5, 2.0e-1, (5,)), (2.5, 0.0, (9,)), (3.5, 0.0, (6,)), (4.5, 0.0, (6,)),
]


def evalp(cs, x):
    acc = Fr(0)
    for c in reversed(cs):
        acc = acc * x + c
    return acc


def xpow(x, m2):
    """x^(m2/2) as an mpf (40 digits)"""
    return mp.mpf(x.numerator) / mp.mpf(x.denominator) if m2 == 2 else mp.power(mp.mpf(x.numerator) / mp.mpf(x.denominator), mp.mpf(m2) / 2)


def piece_error(cs, x, m2):
    p = evalp(cs, x)
    return abs(mp.mpf(p.numerator) / mp.mpf(p.denominator) - xpow(x, m2))


def regenerate(exponent, ns):
    from opda.approximation import minimax_polynomial_coefficients, piecewise_polynomial_knots
    from opda.exceptions import NumericalError
    knots, err = piecewise_polynomial_knots(f=lambda x: x ** exponent, a=0., b=1., ns=ns)
    coefficients = []
    for a, b, n in zip(knots[:-1], knots[1:], ns):
        for transform in [(-1., 1.), (0., 1.), (a, 1.)]:
            try:
                cs, _ = minimax_polynomial_coefficients(f=lambda x: x ** exponent, a=a, b=b, n=n, transform=transform)
            except NumericalError:
                continue
            coefficients.append(cs)
            break
        else:
            raise NumericalError("Failed to find coefficients.")
    return np.array(knots), coefficients, float(err)


# the multi-piece entry regenerated in the quick tier as well: the one with the smallest error level of the table (2.4e-7),
# i.e. the entry on which an absolute slack in the knot search's stop test weighs most (~17 s; it runs in a worker process
# next to the other stages)
QUICK_MULTI = (1.5, 0.0, (11, 17))


def regen_budget(tier):
    if tier != "quick":
        return list(range(len(DOCUMENTED)))
    return ([i for i, (_, _, ns) in enumerate(DOCUMENTED) if len(ns) == 1 and max(ns) <= 11]
            + [DOCUMENTED.index(QUICK_MULTI)])


def _regen_task(args):
    exponent, ns = args
    try:
        with warnings.catch_warnings():
            warnings.simplefilter("ignore")
            knots, coeffs, err = regenerate(exponent, ns)
        return ("ok", np.asarray(knots, float), [np.asarray(c, float) for c in coeffs], float(err))
    except Exception as ex:  # noqa: BLE001  (reported as "the documented generator fails to regenerate the entry")
        return ("exc", repr(ex))


class Regenerator:
    """runs the documented generator for the budgeted entries in forked workers (longest first) while the other stages run;
    `get(i)` waits for entry i.  Falls back to running inline if no worker pool can be had."""

    def __init__(self, budget):
        import multiprocessing
        self.pool, self.res = None, {}
        order = sorted(budget, key=lambda i: -(len(DOCUMENTED[i][2]) * 100 + max(DOCUMENTED[i][2])))
        try:
            self.pool = multiprocessing.get_context("fork").Pool(max(1, min(len(order), 4, os.cpu_count() or 1)))
            for i in order:
                self.res[i] = self.pool.apply_async(_regen_task, ((DOCUMENTED[i][0], DOCUMENTED[i][2]),))
        except Exception:  # noqa: BLE001
            self.pool, self.res = None, {}

    def get(self, i):
        if i in self.res:
            return self.res[i].get()
        return _regen_task((DOCUMENTED[i][0], DOCUMENTED[i][2]))

    def close(self):
        if self.pool is not None:
            self.pool.terminate()
            self.pool.join()


def moment_quadrature(k, loc, scale):
    """∫₀¹ x^k φ(x; loc, scale) dx with break points around loc"""
    loc, scale = mp.mpf(loc), mp.mpf(scale)
    f = lambda x: mp.power(x, k) * mp.npdf(x, loc, scale)
    pts = sorted(set([mp.mpf(0), mp.mpf(1)] + [min(mp.mpf(1), max(mp.mpf(0), loc + j * scale)) for j in (-8, -4, -2, -1, 0, 1, 2, 4, 8)]
                     + [mp.mpf(10) ** (-j) for j in (1, 2, 3, 4, 6)]))
    return mp.quad(f, pts)


def run(seed, tier, replay=None):
    rep = C.Report("C19", seed, tier)
    rng = C.rng_for("C19", seed)
    drv = C.Driver()
    path = os.path.join(C.REPO, "src/opda/_approximations.json")
    try:
        table = json.load(open(path))
    except Exception as e:
        rep.violate(what="the shipped table does not parse", error=repr(e), input=dict(file=path))
        return rep.result(rule="table unreadable")
    rows = list(table.items())
    regen = Regenerator(regen_budget(tier) if sum(len(es) for _, es in rows) == len(DOCUMENTED) else [])
    try:
        return _run(rep, rng, drv, tier, table, rows, regen)
    finally:
        regen.close()


def _run(rep, rng, drv, tier, table, rows, regen):
    # ---- (0) structure, evaluated directly on the file (the Lean theorem table_structure says the same of the translation)
    for key, entries in rows:
        ms = [float(e["min_scale"]) for e in entries]
        if not (all(x > y for x, y in zip(ms, ms[1:])) and ms[-1] == 0.0):
            rep.violate(what="min_scale is not strictly decreasing ending at exactly 0", input=dict(exponent=key, min_scales=ms))
        for ei, e in enumerate(entries):
            kn = [float(x) for x in e["knots"]]
            okk = kn[0] == 0.0 and kn[-1] == 1.0 and all(x < y for x, y in zip(kn, kn[1:])) and len(e["coefficients"]) == len(kn) - 1
            rep.case(("struct", key, ei))
            if not okk:
                rep.violate(what="knots do not increase from exactly 0 to exactly 1 with one coefficient vector per piece",
                            input=dict(exponent=key, entry=ei, knots=kn, n_coefficient_vectors=len(e["coefficients"])))
    r = drv.run([("table.shape", ""), ("table.struct", "")])
    shape_impl = " ".join(f"{int(round(2 * float(k)))}:" + ",".join(str(len(e["coefficients"])) for e in es) for k, es in rows)
    if r[0] is None or " ".join(r[0]) != shape_impl:
        rep.disagree(op="table.shape", note="translated table has a different shape than the file", model=r[0], impl=shape_impl)

    # ---- (1) certificates that could not be produced: look for the failing x
    cf_path = os.path.join(C.VERIF, "lean", "OpdaGen", "cert_failures.json")
    cf = json.load(open(cf_path)) if os.path.exists(cf_path) else dict(failures=[dict(reason="cert_failures.json missing")])
    for f in cf["failures"]:
        found = False
        try:
            key, ei, pi = f["exponent"], f["entry"], f["piece"]
            e = table[key][ei]
            m2 = int(round(2 * float(key)))
            cs = [Fr(float(c)) for c in e["coefficients"][pi]]
            lo, hi = Fr(float(e["knots"][pi])), Fr(float(e["knots"][pi + 1]))
            bound = Fr(102, 100) * Fr(float(e["max_error"]))
            cands = []
            if f.get("x"):
                n, d = f["x"].split("/")
                cands.append(Fr(int(n), int(d)))
            cands += [lo + (hi - lo) * Fr(j, 2000) for j in range(2001)]
            worst = max(cands, key=lambda x: piece_error(cs, x, m2) if lo <= x <= hi else -1)
            if piece_error(cs, worst, m2) > mp.mpf(bound.numerator) / mp.mpf(bound.denominator):
                rep.violate(what="the piecewise polynomial differs from x^k by more than 1.02*max_error",
                            input=dict(exponent=key, entry=ei, piece=pi, x=f"{worst.numerator}/{worst.denominator}", x_float=float(worst)),
                            expected=f"<= {float(bound)}", observed=float(piece_error(cs, worst, m2)),
                            call="_approximations.json")
                found = True
        except Exception as ex:  # malformed entry: report as is
            rep.notes.append(f"cert failure not evaluable: {ex!r}")
        if not found:
            rep.disagree(op="certificate", note="no certificate could be produced and no failing x was found", detail=f)

    # ---- (2) translated data == file: exact evaluation of every piece at random rational points through the driver
    reqs, meta = [], []
    for key, entries in rows:
        m2 = int(round(2 * float(key)))
        for ei, e in enumerate(entries):
            kn = [float(x) for x in e["knots"]]
            xs = set(kn)
            for a, b in zip(kn, kn[1:]):
                xs.update(a + (b - a) * rng.random() for _ in range(3 if tier == "quick" else 12))
                xs.add(float(np.nextafter(b, 0)))
            for x in sorted(xs):
                reqs.append(("table.eval", f"{m2} {ei} {C.fhex(x)}"))
                meta.append((key, m2, ei, x))
    for (key, m2, ei, x), r in zip(meta, drv.run(reqs)):
        e = table[key][ei]
        if r is None:
            rep.disagree(op="table.eval", note="model rejected", input=dict(exponent=key, entry=ei, x=x))
            continue
        pi, val, bnd = int(r[0]), C.parse_ext(r[1]), C.parse_ext(r[2])
        cs = [Fr(float(c)) for c in e["coefficients"][pi]]
        fx = Fr(x)
        rep.case(("eval", key, ei, x), sample=dict(op="table.eval", exponent=key, entry=ei, x=x, piece=pi, value=float(val)))
        rep.count(f"exponent={key}")
        if evalp(cs, fx) != val or bnd != Fr(102, 100) * Fr(float(e["max_error"])):
            rep.disagree(op="table.eval", note="translated polynomial differs from the file's", input=dict(exponent=key, entry=ei, x=x))
        err = piece_error(cs, fx, m2)
        if err > mp.mpf(bnd.numerator) / mp.mpf(bnd.denominator):
            rep.violate(what="the piecewise polynomial differs from x^k by more than 1.02*max_error",
                        input=dict(exponent=key, entry=ei, piece=pi, x=f"{fx.numerator}/{fx.denominator}", x_float=x),
                        expected=f"<= {float(bnd)}", observed=float(err), call="_approximations.json")

    # ---- (3) the code consumes the same table and selects as the model does
    import opda.parametric as P
    NQ = P.NoisyQuadraticDistribution
    inst = NQ(0., 1., 1, 0.1)
    get = getattr(inst, "_get_approximation_coefficients", None)
    if get is None:
        rep.skip("selection_not_observable(private helper renamed)")
    else:
        reqs, meta = [], []
        for key, entries in rows:
            k = float(key)
            ms = [float(e["min_scale"]) for e in entries]
            scales = set()
            for m in ms:
                scales.update([m, float(np.nextafter(m, 10)), float(np.nextafter(m, -1)) if m > 0 else 1e-300, m * 1.5 + 1e-3])
            scales.update(10 ** rng.uniform(-6, 1) for _ in range(5))
            for s in sorted(x for x in scales if x >= 0):
                reqs.append(("table.select", f"{int(round(2 * k))} {C.fhex(s)}"))
                meta.append((key, k, s))
        for (key, k, s), r in zip(meta, drv.run(reqs)):
            rep.case(("select", key, s), sample=dict(op="table.select", exponent=key, scale=s, model=r))
            try:
                knots, coeffs = get(0.3, s, k)
            except Exception as ex:
                rep.disagree(op="table.select", note=f"implementation raised {ex!r}", input=dict(exponent=key, scale=s))
                continue
            idx = None
            for ei, e in enumerate(table[key]):
                if list(map(float, e["knots"])) == list(map(float, knots)) and len(coeffs) == len(e["coefficients"]) and all(
                        np.array_equal(np.asarray(c1, float), np.asarray(c2, float)) for c1, c2 in zip(coeffs, e["coefficients"])):
                    idx = ei
                    break
            if r is None or r[0] != str(idx):
                rep.disagree(op="table.select", note="the code selects a different entry than the model's rule "
                             "'first entry with scale >= min_scale'", input=dict(exponent=key, scale=s), model=r, impl=idx)

    # ---- (4) partial moments from the selected entry vs quadrature, every location, scale range ends included
    pm = getattr(inst, "_partial_fractional_normal_moment", None)
    if pm is None:
        rep.skip("partial_moment_not_observable(private helper renamed)")
    else:
        n_loc = 7 if tier == "quick" else 40
        for key, entries in rows:
            k = float(key)
            ms = [float(e["min_scale"]) for e in entries]
            for ei, e in enumerate(entries):
                hi_s = ms[ei - 1] if ei > 0 else 4 * max(ms[0], 0.25)
                lo_s = ms[ei] if ms[ei] > 0 else min(1e-3, hi_s / 8)
                scales = [lo_s, float(np.nextafter(hi_s, 0)), (lo_s * hi_s) ** 0.5]
                locs = [-10.0, 11.0, 0.0, 1.0, 0.5] + [rng.uniform(-10, 11) for _ in range(n_loc - 5)] + \
                       [rng.uniform(-0.2, 1.2) for _ in range(n_loc)]
                bound = 1.02 * float(e["max_error"])
                for s in scales:
                    for loc in locs:
                        with warnings.catch_warnings():
                            warnings.simplefilter("ignore")
                            v = float(pm(loc, s, k))
                        q = moment_quadrature(k, loc, s)
                        rep.case(("moment", key, ei, s, loc), sample=dict(op="partial_moment", exponent=key, entry=ei, scale=s, loc=loc, impl=v, quad=float(q)))
                        if not abs(mp.mpf(v) - q) <= bound * (1 + 1e-9) + 1e-15:
                            rep.violate(what="partial normal moment from the selected entry differs from quadrature by more than 1.02*max_error",
                                        input=dict(exponent=key, entry=ei, scale=s, loc=loc), expected=float(q), observed=v,
                                        bound=bound, call="NoisyQuadraticDistribution._partial_fractional_normal_moment")

    # ---- (5) regeneration with the documented generator
    flat = [(key, ei, e) for key, es in rows for ei, e in enumerate(es)]
    if len(flat) != len(DOCUMENTED):
        rep.disagree(op="regenerate", note="the table has a different number of entries than the documented generator list")
    else:
        for i in regen_budget(tier):
            exponent, min_scale, ns = DOCUMENTED[i]
            key, ei, e = flat[i]
            rep.count("regenerated=%s" % ("single-piece" if len(ns) == 1 else "multi-piece(%d pieces)" % len(ns)))
            rep.count("regenerated:max_error=1e%d" % int(np.floor(np.log10(float(e["max_error"])))))
            if float(key) != exponent or float(e["min_scale"]) != min_scale:
                rep.violate(what="entry does not carry the documented exponent/min_scale", input=dict(index=i, exponent=key, min_scale=e["min_scale"]),
                            expected=[exponent, min_scale])
                continue
            out = regen.get(i)
            if out[0] != "ok":
                rep.violate(what="the documented generator fails to regenerate the entry", input=dict(exponent=key, entry=ei, ns=list(ns)), error=out[1])
                continue
            _, knots, coeffs, err = out
            rep.case(("regen", key, ei), sample=dict(op="regenerate", exponent=key, entry=ei, ns=list(ns), err=err, recorded=e["max_error"]))
            kn = np.array(e["knots"], float)
            me = float(e["max_error"])
            bad = []
            if len(knots) != len(kn) or np.max(np.abs(knots - kn)) > 1e-5:
                bad.append("knots differ by more than 1e-5")
            if abs(err - me) > 1e-3 * me:
                bad.append("max_error differs by more than 0.1%")
            if not bad:
                for pi, (a, b) in enumerate(zip(kn[:-1], kn[1:])):
                    xs = np.linspace(a, b, 41)
                    d = np.max(np.abs(np.polynomial.polynomial.polyval(xs, np.array(e["coefficients"][pi], float))
                                      - np.polynomial.polynomial.polyval(xs, coeffs[pi])))
                    if d > 0.05 * me:
                        bad.append(f"polynomial values of piece {pi} differ by {d:.3g} > 5% of max_error")
            if bad:
                rep.violate(what="regenerating the entry with the documented generator does not reproduce it: " + "; ".join(bad),
                            input=dict(exponent=key, entry=ei, ns=list(ns)), expected=dict(knots=kn.tolist(), max_error=me),
                            observed=dict(knots=knots.tolist(), max_error=err), call="piecewise_polynomial_knots+minimax_polynomial_coefficients")
    return rep.result(
        rule="every entry of the table: structure; exact evaluation of every piece at its knots, float neighbours and random points "
             "(model vs file, and vs x^k at 40 digits); entry selection at both sides of every min_scale; partial moments vs mpmath "
             "quadrature at scale-range ends and stratified locations in [-10,11]; regeneration of the single-piece entries of degree "
             "<= 11 and of the multi-piece entry with the smallest error level, exponent 1.5 / min_scale 0 / degrees (11,17) (quick) / "
             "all 13 (thorough). distinct = distinct (kind, entry, point).",
        extra=dict(driver_lines=drv.lines, extra=dict(certified_pieces=cf.get("pieces"), expected_pieces=cf.get("expected"),
                                                      intervals=cf.get("intervals"))))


if __name__ == "__main__":
    C.main(run)
