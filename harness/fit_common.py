"""Shared machinery of the C10 / C11 correspondence harnesses (`fit` of the two parametric classes).

Code side (run in worker processes, 16-way): the real `fit` is called with
`opda.parametric.optimize.differential_evolution` replaced by a recorder that either returns a *chosen*
result at once (stub) or calls the real optimiser (pass-through).  Only public observables are recorded:
`bounds`, `integrality`, `init`, the values of the objective `func` at probe points, the returned object /
exception class.

Spec side (`spec_*`, written from the docstring, independent of the code under test).

Model side: requests for the Lean driver ops `fit.plan`, `fit.buckets`, `fit.loss`, `fit.select`,
`fit.validate` and the parsers of their replies.
"""
import math
import multiprocessing
import os
import sys
import traceback
import warnings

import numpy as np

import common as C

INF = float("inf")
SS = [1e-6, 1e-4, 1e-2, 1e-1, 1e+0, 1e+1, 1e+2]   # only its length matters to the model
SCIPY_MIN_POP = 5


class LeakedOptimizerError(ValueError):
    """what the stub raises where scipy's own argument validation would raise (a ValueError subclass, so
    that a repaired `fit` that catches ValueError around the optimiser call behaves as with real scipy)"""


# ----------------------------------------------------------------------------------------------- cases

def hx(x):
    return C.fhex(float(x))


def uh(s):
    return C.unhex(s)


def enc_num_cons(c):
    """None | float | (lo, hi)  ->  JSON-able"""
    if c is None:
        return None
    if isinstance(c, tuple):
        return ["i", hx(c[0]), hx(c[1])]
    return ["f", hx(c)]


def build_args(case):
    """case (JSON-able) -> (cls, ys ndarray, limits, constraints dict)"""
    import opda.parametric as P
    cls = P.QuadraticDistribution if case["cls"] == "quad" else P.NoisyQuadraticDistribution
    vals = [uh(v) for v in case["ys"]]
    if case["dtype"] == "int64":
        ys = np.array([int(v) for v in vals], dtype=np.int64)
    elif case["dtype"] == "float32":
        ys = np.array(vals, dtype=np.float32)
    elif case["dtype"] == "list":
        ys = [float(v) for v in vals]
    else:
        ys = np.array(vals, dtype=np.float64)
    limits = (uh(case["limits"][0]), uh(case["limits"][1]))
    cons = {}
    for k in case.get("order", ["a", "b", "c", "o", "convex"]):
        v = case["constraints"].get(k)
        if v is None:
            continue
        if k in ("a", "b", "o"):
            cons[k] = uh(v[1]) if v[0] == "f" else (uh(v[1]), uh(v[2]))
        elif k == "c":
            if v[0] == "f":
                cons[k] = int(v[1])
            elif v[0] == "ff":
                cons[k] = float(v[1])
            elif v[0] == "i":
                cons[k] = (int(v[1]), int(v[2]))
            else:  # "x": end points typed as given: [value, is_float]
                lo = float(v[1]) if v[3] else int(v[1])
                hi = float(v[2]) if v[4] else int(v[2])
                cons[k] = (lo, hi)
        elif k == "convex":
            cons[k] = bool(v[1]) if v[0] == "s" else [bool(b) for b in v[1]]
    return cls, ys, limits, cons


def observed_part(case):
    """Spec: censoring as the docstring describes it (left-open interval); comparisons on the exact values
    (a float32 observation is compared as the double it equals, as numpy does against float64 limits)"""
    dt = np.float32 if case["dtype"] == "float32" else np.float64
    vals = [uh(v) for v in case["ys"]]
    lo, hi = uh(case["limits"][0]), uh(case["limits"][1])
    n = len(vals)
    n_lower = int(sum(1 for y in vals if y <= lo))
    n_upper = int(sum(1 for y in vals if y > hi))
    obs = np.array([y for y in vals if lo < y <= hi], dtype=dt)
    return n, n_lower, n_upper, obs, lo, hi


def spec_decimals(obs):
    """`3 fewer digits than the coarsest precision of any observed point`, clipped to the float format
    (np.round / np.spacing are numpy's: black boxes of the model)"""
    finfo = np.finfo(obs.dtype)
    with np.errstate(all="ignore"):
        return int(-np.clip(np.log10(np.max(np.abs(np.spacing(obs)))), np.log10(finfo.smallest_normal),
                            np.log10(finfo.max)).astype(int) - 3)


def rnd(x, decimals):
    with np.errstate(all="ignore"):
        return float(np.round(np.float64(x), decimals=decimals))


def cs_of(case):
    v = case["constraints"].get("c")
    if v is None:
        return list(range(1, 11))
    if v[0] in ("f", "ff"):
        return [int(v[1])]
    return list(range(max(1, int(v[1])), min(10, int(v[2])) + 1))


def convexs_of(case):
    v = case["constraints"].get("convex")
    if v is None:
        return [False, True]
    return [bool(v[1])] if v[0] == "s" else [bool(b) for b in v[1]]


def free_of(case):
    cons = case["constraints"]
    fr = {k: (cons.get(k) is None or cons[k][0] in ("i", "x")) for k in ("a", "b", "c", "o")}
    if case["cls"] == "quad":
        fr["o"] = False
    return fr


def fixed_of(case):
    cons = case["constraints"]
    out = {}
    for k in ("a", "b", "o"):
        v = cons.get(k)
        out[k] = uh(v[1]) if v is not None and v[0] == "f" else 0.0
    v = cons.get("c")
    out["c"] = float(v[1]) if v is not None and v[0] in ("f", "ff") else 0.0
    return out


def black_boxes(case):
    """the factors `w` (one per value of convex) and `v`, from the formulas in the code comments;
    their inputs (`i_min`, `j_max`, `n`, `cs`) are cross-checked against the model's"""
    import opda.parametric as P
    from scipy import stats
    n, n_lower, n_upper, obs, lo, hi = observed_part(case)
    i_min = 1 if n_lower == 0 else n_lower
    j_max = n if n_upper == 0 else n - n_upper + 1
    cs = cs_of(case)
    with warnings.catch_warnings(), np.errstate(all="ignore"):
        warnings.simplefilter("ignore")
        p = stats.beta(j_max - i_min, n - (j_max - i_min) + 1).ppf(1e-9)
        ws = []
        for convex in convexs_of(case):
            if case["cls"] == "quad":
                w = max(1 / np.diff(P.QuadraticDistribution(0, 1, c, convex).ppf([0.5 - p / 2, 0.5 + p / 2]))[0] for c in cs)
            else:
                w = max(1 / np.diff(P.NoisyQuadraticDistribution(0, 1, c, 0, convex).ppf([0.5 - p / 2, 0.5 + p / 2]))[0] for c in cs)
            ws.append(float(w))
        v = float(1 / np.diff(stats.norm(0., 1.).ppf([0.5 - p / 2, 0.5 + p / 2]))[0])
    return dict(i_min=i_min, j_max=j_max, ws=ws, v=v)


# ------------------------------------------------------------------------------------------ Spec objective

def spec_buckets(obs_r, ll_r, lu_r, edge_lo_r, edge_hi_r, n_lower, n_upper, closed_left):
    """The documented buckets: left-open intervals between the de-duplicated uncensored observations, split at
    a censoring limit only when observations were censored on that side, closed off by the support edges;
    counts = observations per bucket (+ the observations *on* the lower edge when the left-most bucket is
    closed), censored counts in the tail buckets, +1 in the right-most bucket.
    Returns (edges, counts, feasible): `feasible` is False when censored observations lie where every
    candidate has probability zero (a censoring limit coincides with the support edge on its side)."""
    pts = {edge_lo_r, edge_hi_r} | set(obs_r)
    if n_lower > 0:
        pts.add(ll_r)
    if n_upper > 0:
        pts.add(lu_r)
    zs = sorted(pts)
    counts = []
    for i in range(1, len(zs)):
        zp, z = zs[i - 1], zs[i]
        k = sum(1 for y in obs_r if zp < y <= z)
        if i == 1 and closed_left:
            k += sum(1 for y in obs_r if y == zp)
        if n_lower > 0 and z == ll_r:
            k += n_lower
        if n_upper > 0 and zp == lu_r:
            k += n_upper
        if i == len(zs) - 1:
            k += 1
        counts.append(k)
    # zero likelihood for every candidate: censored observations beyond a support edge, or uncensored
    # observations outside the hull [edge_lo, edge_hi] of all candidate supports
    feasible = (not (n_lower > 0 and ll_r == zs[0]) and not (n_upper > 0 and lu_r == zs[-1])
                and all(edge_lo_r <= y <= edge_hi_r for y in obs_r))
    return zs, counts, feasible


def spec_buckets_alt(zs, counts, obs_r, ll_r, lu_r, edge_lo_r, edge_hi_r, n_lower, n_upper, closed_left):
    """Second admissible reading when the lower limit *is* the lower support edge (the docstring does not
    cover it): the left-censored observations are `<= limit = a-`; if they sit exactly on `a-` the closed
    left-most bucket takes them ("the leftmost bucket must be closed (i.e., include a-)").  Returns
    (counts, feasible) or None when the situation does not arise."""
    if not (n_lower > 0 and closed_left and ll_r == zs[0] and len(counts) > 0):
        return None
    alt = list(counts)
    alt[0] += n_lower
    feasible = not (n_upper > 0 and lu_r == zs[-1]) and all(edge_lo_r <= y <= edge_hi_r for y in obs_r)
    return alt, feasible


def spec_objective(F, counts, n, feasible=True, with_scale=False):
    """minus the grouped log-likelihood divided by n+1, plus the documented constant; F = cdf values at the edges.
    `scale` = sum of the absolute values of the terms (what a relative tolerance on a floating sum refers to
    when the terms cancel)."""
    if not feasible:
        return (INF, False, INF) if with_scale else (INF, False)
    with np.errstate(all="ignore"):
        dF = np.diff(np.asarray(F, dtype=float))
        nonmono = bool(np.any(dF < 0))
        tot, K, scale = 0.0, 0.0, 0.0
        for k, d in zip(counts, dF):
            if k > 0:
                t = k * (math.log(d) if d > 0 else (-INF if d == 0 else float("nan")))
                c = k * math.log((n + 1) / k)
                tot += t
                K += c
                scale += abs(t) + abs(c)
        val = -(tot + K) / (n + 1)
        return (val, nonmono, scale / (n + 1)) if with_scale else (val, nonmono)


# ------------------------------------------------------------------------------------------- code side

def _theta_from_u(bounds, integrality, u):
    x = []
    for (lo, hi), integ, ui in zip(bounds, integrality, u):
        lo, hi = float(lo), float(hi)
        if integ:
            k = int(round(hi - lo))
            x.append(lo + min(k, int(ui * (k + 1))))
        elif not (math.isfinite(lo) and math.isfinite(hi)):
            x.append(lo if math.isfinite(lo) else (hi if math.isfinite(hi) else 0.0))
        else:
            x.append(min(hi, max(lo, lo + ui * (hi - lo))))
    return x


def _params_of(case, theta):
    """Spec reading of a coordinate vector: free parameters in the documented order a, b, c, o"""
    fr, fx = free_of(case), fixed_of(case)
    out, i = {}, 0
    for k in ("a", "b", "c", "o"):
        if fr[k]:
            out[k] = float(theta[i]) if i < len(theta) else float("nan")
            i += 1
        else:
            out[k] = fx[k]
    return out


def _dist(case, params, convex):
    import opda.parametric as P
    if case["cls"] == "quad":
        return P.QuadraticDistribution(params["a"], params["b"], params["c"], convex)
    return P.NoisyQuadraticDistribution(params["a"], params["b"], params["c"], params["o"], convex)


def run_case(task):
    """Worker: call the real fit under the recorder. task = dict(case=…, mode='stub'|'real', policy=…,
    n_theta=…, seed=…).  policy: list (one per pass) of dict(fun=float|'true', u=[…]) for the stub."""
    import opda.parametric as P
    from opda import exceptions
    from scipy import optimize
    case, mode = task["case"], task.get("mode", "stub")
    policy, n_theta = task.get("policy") or [], task.get("n_theta", 3)
    prng = np.random.default_rng([task.get("seed", 0), 77])
    calls = []
    real_de = task.get("_real_de") or optimize.differential_evolution
    n, n_lower, n_upper, obs, lo, hi = observed_part(case)
    out = dict(summary=dict(n=n, n_lower=n_lower, n_upper=n_upper, n_obs=len(obs)))

    def recorder(func, bounds, **kw):
        k = len(calls)
        init = np.array(kw.get("init"), dtype=float)
        integ = [bool(b) for b in kw.get("integrality", [False] * len(bounds))]
        rec = dict(bounds=[[float(b[0]), float(b[1])] for b in bounds], integrality=integ,
                   init_shape=list(init.shape), init=init.tolist() if init.ndim == 2 else None,
                   kwargs=sorted(kw.keys()), seed_is_generator=kw.get("seed") is task.get("_gen"),
                   polish=kw.get("polish"))
        calls.append(rec)
        # probe points: random in the box (+ two initial candidates), objective values from the code
        thetas = []
        for _ in range(n_theta):
            u = prng.random(len(bounds))
            th = _theta_from_u(rec["bounds"], integ, u)
            if case["cls"] == "noisy":
                fr = free_of(case)
                if fr["a"] and fr["b"] and th[0] > th[1] and prng.random() < 0.8:
                    th[0], th[1] = th[1], th[0]
            thetas.append(th)
        if init.ndim == 2 and init.shape[0] > 0 and init.shape[1] == len(bounds):
            thetas.append([float(v) for v in init[int(prng.integers(init.shape[0]))]])
        rec["thetas"] = thetas
        with np.errstate(all="ignore"), warnings.catch_warnings():
            warnings.simplefilter("ignore")
            vals = []
            for th in thetas:
                try:
                    vals.append(float(func(np.array(th, dtype=float))))
                except Exception as e:  # the objective itself raised
                    vals.append("raise:" + type(e).__name__)
            rec["f_code"] = vals
        if mode == "real":
            res = real_de(func, bounds, **kw)
            rec["result_x"] = [float(v) for v in res.x]
            rec["result_fun"] = float(res.fun)
            return res
        # stub: scipy's own argument validation first
        if init.ndim != 2 or init.shape[0] < SCIPY_MIN_POP or init.shape[1] != len(bounds):
            raise LeakedOptimizerError("The population supplied needs to have shape (S, len(x)), where S > 4.")
        pol = policy[k] if k < len(policy) else dict(fun="true", u=[0.5] * len(bounds))
        x = _theta_from_u(rec["bounds"], integ, pol["u"])
        fun_override = None
        if case["cls"] == "noisy":
            # an optimiser never reports a finite objective for a vector that is no distribution (a > b):
            # make the chosen point a distribution if the box allows it, else report its true (infinite) loss
            fr = free_of(case)
            pr = _params_of(case, x)
            if pr["a"] > pr["b"]:
                if fr["a"] and fr["b"]:
                    x[0], x[1] = x[1], x[0]
                    bx = rec["bounds"]
                    if not (bx[0][0] <= x[0] <= bx[0][1] and bx[1][0] <= x[1] <= bx[1][1]):
                        x[0], x[1] = x[1], x[0]
                        fun_override = "true"
                elif fr["a"] and rec["bounds"][0][0] <= pr["b"] <= rec["bounds"][0][1]:
                    x[0] = pr["b"]
                elif fr["b"] and rec["bounds"][0][0] <= pr["a"] <= rec["bounds"][0][1]:
                    x[0] = pr["a"]
                else:
                    fun_override = "true"
        if pol["fun"] == "true" or fun_override == "true":
            with np.errstate(all="ignore"), warnings.catch_warnings():
                warnings.simplefilter("ignore")
                fun = float(func(np.array(x, dtype=float)))
        else:
            fun = float(pol["fun"])
        rec["result_x"], rec["result_fun"] = x, fun
        return optimize.OptimizeResult(x=np.array(x, dtype=float), fun=fun)

    cls, ys, limits, cons = build_args(case)
    gen = np.random.default_rng(task.get("gen_seed", 0))
    task["_gen"] = gen
    saved = P.optimize.differential_evolution
    P.optimize.differential_evolution = recorder
    try:
        with warnings.catch_warnings():
            warnings.simplefilter("ignore")
            try:
                d = cls.fit(ys, limits=limits, constraints=cons if (cons or not case.get("none_constraints")) else None,
                            generator=gen)
                out["outcome"] = "ok"
                out["result"] = dict(a=float(d.a), b=float(d.b), c=float(d.c), o=float(getattr(d, "o", 0.0)),
                                     convex=bool(d.convex), cls=type(d).__name__)
            except BaseException as e:  # noqa: BLE001 - the class is the observable
                tb = traceback.extract_tb(sys.exc_info()[2])
                last = tb[-1].filename if tb else ""
                out["outcome"] = "exc"
                out["exc"] = dict(
                    cls=("OptimizationError" if isinstance(e, exceptions.OptimizationError) else
                         "LeakedOptimizerError" if isinstance(e, LeakedOptimizerError) else type(e).__name__),
                    mro=[c.__name__ for c in type(e).__mro__], msg=str(e)[:160],
                    leaked=bool(isinstance(e, LeakedOptimizerError) or os.sep + "scipy" + os.sep in last),
                    line=tb[-1].lineno if tb else None)
    finally:
        P.optimize.differential_evolution = saved
    out["calls"] = calls
    return out


def spec_side(task, out):
    """Worker, after the call: everything the Spec/Model comparison needs that involves the library's own
    cdf (a black box of the model): per pass the documented buckets from the *captured* bounds and the
    cdf tables at their edges for every probe point."""
    case = task["case"]
    n, n_lower, n_upper, obs, lo, hi = observed_part(case)
    if n < 3 or len(obs) == 0:
        return
    fr, fx = free_of(case), fixed_of(case)
    dec = spec_decimals(obs)
    out["decimals"] = dec
    obs_r = [rnd(y, dec) for y in obs]
    convexs = convexs_of(case)
    nb = sum(1 for k in ("a", "b", "c", "o") if fr[k])
    passes = []
    ci = 0
    for pi, convex in enumerate(convexs):
        rec = None
        if nb > 0:
            if ci >= len(out["calls"]):
                break
            rec = out["calls"][ci]
            ci += 1
            if len(rec["bounds"]) != nb:
                passes.append(dict(error="bounds length differs from the number of free parameters"))
                continue
            box = {}
            i = 0
            for k in ("a", "b", "c", "o"):
                if fr[k]:
                    box[k] = rec["bounds"][i]
                    i += 1
                else:
                    box[k] = [fx[k], fx[k]]
        else:
            box = {k: [fx[k], fx[k]] for k in ("a", "b", "c", "o")}
        pinned = case["cls"] == "quad" or not (max(box["o"]) > 0.0)
        edge_lo, edge_hi = (box["a"][0], box["b"][1]) if pinned else (-INF, INF)
        zs, counts, feasible = spec_buckets(obs_r, rnd(lo, dec), rnd(hi, dec), rnd(edge_lo, dec), rnd(edge_hi, dec),
                                            n_lower, n_upper, pinned)
        alt = spec_buckets_alt(zs, counts, obs_r, rnd(lo, dec), rnd(hi, dec), rnd(edge_lo, dec), rnd(edge_hi, dec),
                               n_lower, n_upper, pinned)
        p = dict(convex=convex, pinned=pinned, zs=zs, counts=counts, feasible=feasible, alt=alt,
                 edge=[edge_lo, edge_hi], thetas=[], F=[], f_spec=[], f_spec_alt=[], nonmono=[], scale=[])
        thetas = rec["thetas"] if rec is not None else [[]]
        if rec is not None and rec.get("result_x") is not None:
            thetas = thetas + [rec["result_x"]]
        with np.errstate(all="ignore"), warnings.catch_warnings():
            warnings.simplefilter("ignore")
            for th in thetas:
                params = _params_of(case, th)
                try:
                    dist = _dist(case, params, convex)
                    F = [float(v) for v in dist.cdf(np.array(zs, dtype=float))]
                    fs, nm, sc = spec_objective(F, counts, n, feasible, with_scale=True)
                    fa = spec_objective(F, alt[0], n, alt[1])[0] if alt is not None else None
                except ValueError:
                    F, fs, nm, sc, fa = None, INF, False, INF, (INF if alt is not None else None)
                p["thetas"].append(th)
                p["F"].append(F)
                p["f_spec"].append(fs)
                p["nonmono"].append(nm)
                p["scale"].append(sc)
                p["f_spec_alt"].append(fa)
        passes.append(p)
    out["passes"] = passes


def worker(task):
    try:
        out = run_case(task)
        bb = None
        try:
            n, n_lower, n_upper, obs, lo, hi = observed_part(task["case"])
            if n >= 3 and len(obs) > 0:
                bb = black_boxes(task["case"])
                spec_side(task, out)
        except Exception:
            out["spec_error"] = traceback.format_exc()[-600:]
        out["bb"] = bb
        return out
    except Exception:
        return dict(harness_error=traceback.format_exc()[-1500:])


def run_pool(tasks, procs=None):
    procs = procs or min(16, os.cpu_count() or 1)
    if len(tasks) <= 2 or procs <= 1:
        return [worker(t) for t in tasks]
    ctx = multiprocessing.get_context("fork")
    with ctx.Pool(procs) as pool:
        return pool.map(worker, tasks, chunksize=1)


# ------------------------------------------------------------------------------------------ model side

def _cons_tok(v):
    if v is None:
        return "-"
    if v[0] == "f":
        return f"f {v[1]}"
    return f"i {v[1]} {v[2]}"


def _cons_c_tok(v):
    if v is None:
        return "-"
    if v[0] in ("f", "ff"):
        return f"f {int(v[1])}"
    if v[0] == "i":
        return f"i {int(v[1])} {int(v[2])}"
    return f"x {int(v[1])} {int(v[2])} {1 if v[3] else 0} {1 if v[4] else 0}"


def plan_request(case, bb):
    cons = case["constraints"]
    vals = [uh(v) for v in case["ys"]]
    if case["dtype"] == "float32":
        vals = [float(np.float32(v)) for v in vals]
    o_tok = _cons_tok(cons.get("o")) if case["cls"] == "noisy" else "-"
    return ("fit.plan", " ".join([
        "q" if case["cls"] == "quad" else "n", "1" if case["dtype"] == "float32" else "0",
        case["limits"][0], case["limits"][1], _cons_tok(cons.get("a")), _cons_tok(cons.get("b")),
        _cons_c_tok(cons.get("c")), o_tok, C.flist(bb["ws"]), C.fhex(bb["v"]), C.flist(vals)]))


def parse_plan(toks):
    """reply of fit.plan -> dict(pre=…, n=…, …, passes=[dict(st=…, box=[(lo,hi)…], cl=…, elo=…, ehi=…)])"""
    head, passes, cur = {}, [], None
    for t in toks:
        if t == "|":
            cur = {}
            passes.append(cur)
            continue
        k, _, v = t.partition("=")
        (head if cur is None else cur)[k] = v
    for k in ("n", "nl", "nu", "nobs", "imin", "jmax", "ncs", "nb", "pop"):
        if k in head:
            head[k] = int(head[k])
    for k in ("ymin", "ymax", "range"):
        if k in head:
            head[k] = uh(head[k])
    for p in passes:
        if p.get("st") == "ok":
            box = []
            for item in (p["box"].split(",") if p["box"] else []):
                lo, hi = item.split(":")
                box.append((float(int(lo[1:])), float(int(hi[1:]))) if lo.startswith("#") else (uh(lo), uh(hi)))
            p["box"] = box
            p["cl"] = p["cl"] == "1"
            p["elo"], p["ehi"] = uh(p["elo"]), uh(p["ehi"])
    head["passes"] = passes
    return head


def buckets_request(closed_left, elo_r, ll_r, obs_r, lu_r, ehi_r, n_lower, n_upper):
    o = lambda x: "-" if x is None else C.fhex(x)  # noqa: E731
    return ("fit.buckets", f"{1 if closed_left else 0} {C.fhex(elo_r)} {o(ll_r)} {C.flist(obs_r)} {o(lu_r)} "
                           f"{C.fhex(ehi_r)} {n_lower} {n_upper}")


def parse_buckets(toks):
    d = dict(t.split("=", 1) for t in toks)
    zs = [C.parse_ext(z) for z in d["zs"].split(",")] if d["zs"] else []
    d["zs"] = [float(z) for z in zs]
    d["ks"] = None if d["ks"] == "IndexError" else ([int(k) for k in d["ks"].split(",")] if d["ks"] else [])
    d["spec"] = [int(k) for k in d["spec"].split(",")] if d["spec"] else []
    d["A"], d["B"] = d["A"] == "1", d["B"] == "1"
    return d


def loss_request(sorted_, n, ks, ps):
    return ("fit.loss", f"{1 if sorted_ else 0} {n} {C.ilist(ks)} {C.flist(ps)}")


def select_request(case, passes):
    """passes: list of dict(plan_err=None|'OptimizationError', buckets_ok, nb, pop, fun, x)"""
    fr, fx = free_of(case), fixed_of(case)
    bits = "".join("1" if fr[k] else "0" for k in ("a", "b", "c", "o"))
    toks = [bits, C.fhex(fx["a"]), C.fhex(fx["b"]), C.fhex(fx["c"]), C.fhex(fx["o"]), str(len(passes))]
    for p in passes:
        toks += [p["plan_err"] or "-", "1" if p["buckets_ok"] else "0", str(p["nb"]), str(p["pop"]),
                 C.fhex(p["fun"]), C.flist(p["x"])]
    return ("fit.select", " ".join(toks))


def rel_close(a, b, tol=1e-7):
    """the property's comparison of objective values: 1e-7 relative; equal infinities / both NaN agree"""
    if isinstance(a, str) or isinstance(b, str):
        return a == b
    if a != a or b != b:
        return a != a and b != b
    if abs(a) == INF or abs(b) == INF:
        return a == b
    return abs(a - b) <= tol * max(abs(a), abs(b))


# ------------------------------------------------------------------------------------------- generators

def gen_sample(rng, allow_degenerate=True):
    """(values as floats, dtype tag). n >= 3; ties, rounding, float32 / int dtypes, scales."""
    kind = rng.choice(["uniform", "uniform", "rounded1", "rounded2", "rounded3", "int", "f32", "f32r",
                       "alleq", "allbutone", "scaled", "negative"])
    n = rng.choice([3, 3, 4, 5, 6, 8, 10, 12, 16, 20, 30])
    if kind == "uniform":
        ys = [rng.uniform(0, 1) for _ in range(n)]
    elif kind.startswith("rounded"):
        d = int(kind[-1])
        ys = [round(rng.uniform(0, 1), d) for _ in range(n)]
    elif kind == "int":
        ys = [float(rng.randint(0, 9)) for _ in range(n)]
        return ys, "int64"
    elif kind == "f32":
        ys = [float(np.float32(round(rng.uniform(0, 1), 3))) for _ in range(n)]
        return ys, "float32"
    elif kind == "f32r":
        ys = [float(np.float32(rng.uniform(0, 4))) for _ in range(n)]
        return ys, "float32"
    elif kind == "alleq":
        v = round(rng.uniform(0, 2), 2)
        ys = [v] * n
    elif kind == "allbutone":
        v = round(rng.uniform(0, 1), 1)
        ys = [v] * (n - 1) + [v + rng.choice([1.0, 0.5, -0.5])]
        rng.shuffle(ys)
    elif kind == "scaled":
        s = rng.choice([1e3, 1e-3, 37.0])
        ys = [round(rng.uniform(0, 1), 2) * s for _ in range(n)]
    else:
        ys = [round(rng.uniform(-2, 1), 2) for _ in range(n)]
    return ys, rng.choice(["float64", "float64", "float64", "list"])


def gen_sample_signed_wide(rng):
    """Negated losses / log-likelihoods and mixed-sign scores: the observation of largest *magnitude* is not the
    largest *value* (|min| >> max), the magnitudes span 3-8 orders, and some of the large-magnitude observations
    come with floating-point-noise neighbours (the same point computed twice: equal up to 1-4 ulps of the sample's
    dtype, plus the occasional exact duplicate).  "Round the data a tiny bit ... 3 fewer digits than the coarsest
    precision of any observed point" is about this family: the coarsest precision sits at the *bottom* of the
    sample here.  Returns (values as floats, dtype tag, tags for the input histogram)."""
    dtype = rng.choice(["float64", "float64", "list", "float32", "float32"])
    dt = np.float32 if dtype == "float32" else np.float64
    sign = rng.choice(["negative", "negative", "mixed", "mixed", "negative+0"])
    orders = rng.uniform(3.0, 8.0)
    top = 10.0 ** rng.uniform(-2.0, 6.0 if dtype != "float32" else 4.0)      # the largest magnitude
    n0 = rng.choice([5, 6, 8, 10, 12, 16])
    mags = [top, top * 10.0 ** (-orders)] + [top * 10.0 ** (-rng.uniform(0.0, orders)) for _ in range(n0 - 2)]
    mags += [top * rng.uniform(0.1, 1.0) for _ in range(rng.choice([0, 1, 2]))]   # company in the top decade
    mags.sort(reverse=True)
    if rng.random() < 0.5:
        mags = [float("%.4g" % m) for m in mags]                                 # reported with 4 digits
    vals = [-m for m in mags]
    if sign == "mixed":
        for i in range(1, rng.randint(1, max(1, len(vals) // 3)) + 1):
            vals[-i] = -vals[-i]                                                 # the small magnitudes are the positive scores
    elif sign == "negative+0":
        vals.append(0.0)
    vals = [float(dt(v)) for v in vals]
    # near-ties among the large-magnitude observations (magnitude within a decade of the largest)
    big = [i for i, v in enumerate(vals) if abs(v) >= top / 10.0]
    rng.shuffle(big)
    ulps = []
    extra = []
    for i in big[:rng.choice([1, 1, 2, 3])]:
        for _ in range(rng.choice([1, 1, 2])):
            k = rng.choice([1, 1, 2, 3, 4])
            toward = dt(rng.choice([-np.inf, np.inf]))
            w = dt(vals[i])
            for _ in range(k):
                w = np.nextafter(w, toward)
            extra.append(float(w))
            ulps.append(k)
        if rng.random() < 0.25:
            extra.append(vals[i])                                                # and an exact duplicate
    ys = vals + extra
    rng.shuffle(ys)
    tags = dict(sign=sign, orders=int(orders), near_tie_ulps=sorted(set(ulps)), n=len(ys))
    return ys, dtype, tags


def gen_limits(rng, ys):
    srt = sorted(set(ys))
    kind = rng.choice(["none", "none", "left", "right", "both", "left@obs", "right@obs", "right@min", "both@obs",
                       "left~obs", "right~obs", "right~obs"])
    mid = lambda a, b: (a + b) / 2  # noqa: E731
    # "~obs": a limit within 1e-9 relative of an observation but not equal to it, on either side -- for a float32 sample that is inside
    # the spacing of the sample's dtype (the limit is a double: `ys <= limit`, `ys > limit` are decided between doubles), for a float64
    # sample it is an ordinary limit just beside an observation
    near = lambda v: v + rng.choice([-1.0, 1.0]) * max(abs(v), 1e-30) * 10.0 ** rng.uniform(-12.0, -8.5)  # noqa: E731
    lo, hi = -INF, INF
    if len(srt) == 1:
        v = srt[0]
        kind = rng.choice(["none", "right@obs", "above", "below"])
        if kind == "right@obs":
            hi = v
        elif kind == "above":
            hi = v + 1.0
        elif kind == "below":
            lo = v - 1.0
        return lo, hi
    q1 = srt[max(0, len(srt) // 4 - 1)]
    q1n = srt[max(0, len(srt) // 4 - 1) + 1] if len(srt) > max(0, len(srt) // 4 - 1) + 1 else srt[-1]
    q3 = srt[min(len(srt) - 1, (3 * len(srt)) // 4)]
    q3p = srt[min(len(srt) - 1, (3 * len(srt)) // 4) - 1] if (3 * len(srt)) // 4 >= 1 else srt[0]
    if kind == "left":
        lo = mid(q1, q1n)
    elif kind == "right":
        hi = mid(q3p, q3)
    elif kind == "both":
        lo, hi = mid(q1, q1n), mid(q3p, q3)
    elif kind == "left@obs":
        lo = q1
    elif kind == "right@obs":
        hi = q3p
    elif kind == "right@min":
        hi = srt[0]
    elif kind == "both@obs":
        lo, hi = q1, q3p
    elif kind == "left~obs":
        lo = near(q1)
    elif kind == "right~obs":
        hi = near(q3p)
    if not lo < hi:
        lo, hi = -INF, hi if hi > srt[0] else INF
    return lo, hi


def data_anchor(ys, lo, hi):
    n_lower = sum(1 for y in ys if y <= lo)
    n_upper = sum(1 for y in ys if y > hi)
    obs = [y for y in ys if lo < y <= hi]
    if not obs:
        return None
    return (min(obs) if n_lower == 0 else lo), (max(obs) if n_upper == 0 else hi), n_lower, n_upper


def gen_constraints(rng, cls, ys, lo, hi, light_c=False, allow_f8=True):
    """fixed / interval / absent for each of a, b, c, o, convex; degenerate families of the C11 quantifier"""
    anc = data_anchor(ys, lo, hi)
    y_min, y_max = (anc[0], anc[1]) if anc else (0.0, 1.0)
    span = max(y_max - y_min, 1e-3 * max(1.0, abs(y_max)))
    cons = {}
    ka = rng.choice(["absent", "absent", "absent", "fixed_below", "fixed_at", "int_around", "int_at", "int_half", "fixed_above",
                     "fixed_just_above", "int_just_above"])
    # "just above / below": inside the rounding of the data's own dtype (a float32 sample is compared as the doubles it equals), so the
    # constraint is infeasible by less than the spacing of the sample's dtype and by more than the spacing of a double
    tiny = lambda v: max(abs(v), 1e-300) * 10.0 ** rng.uniform(-13.0, -8.5)       # noqa: E731
    if ka == "fixed_just_above":
        cons["a"] = ["f", hx(y_min + tiny(y_min))]
    elif ka == "int_just_above":
        cons["a"] = ["i", hx(y_min + tiny(y_min)), hx(y_min + span)]
    elif ka == "fixed_below":
        cons["a"] = ["f", hx(y_min - rng.choice([0.1, 0.5, 2.0]) * span)]
    elif ka == "fixed_at":
        cons["a"] = ["f", hx(y_min)]
    elif ka == "fixed_above":
        cons["a"] = ["f", hx(y_min + 0.3 * span)]
    elif ka == "int_around":
        cons["a"] = ["i", hx(y_min - 2.0 * span), hx(y_min + 0.5 * span)]
    elif ka == "int_at":
        cons["a"] = ["i", hx(y_min), hx(y_min + span)]
    elif ka == "int_half":
        cons["a"] = ["i", hx(-INF), hx(y_min - 0.1 * span)]
    kb = rng.choice(["absent", "absent", "absent", "fixed_above", "fixed_at", "int_around", "int_at", "int_half", "fixed_below",
                     "fixed_just_below", "int_just_below"])
    if kb == "fixed_just_below":
        cons["b"] = ["f", hx(y_max - tiny(y_max))]
    elif kb == "int_just_below":
        cons["b"] = ["i", hx(y_max - span), hx(y_max - tiny(y_max))]
    elif kb == "fixed_above":
        cons["b"] = ["f", hx(y_max + rng.choice([0.1, 0.5, 2.0]) * span)]
    elif kb == "fixed_at":
        cons["b"] = ["f", hx(y_max)]
    elif kb == "fixed_below":
        cons["b"] = ["f", hx(y_max - 0.3 * span)]
    elif kb == "int_around":
        cons["b"] = ["i", hx(y_max - 0.5 * span), hx(y_max + 2.0 * span)]
    elif kb == "int_at":
        cons["b"] = ["i", hx(y_max - span), hx(y_max)]
    elif kb == "int_half":
        cons["b"] = ["i", hx(y_max + 0.1 * span), hx(INF)]
    kc = rng.choice(["absent", "fixed", "fixed", "narrow", "narrow", "range", "wide", "single", "floatfixed"]
                    + (["floatpair"] if allow_f8 else []))
    if light_c and kc in ("absent", "wide", "range"):
        kc = rng.choice(["fixed", "narrow", "single"])
    if kc == "fixed":
        cons["c"] = ["f", rng.randint(1, 10)]
    elif kc == "floatfixed":
        cons["c"] = ["ff", rng.randint(1, 10)]
    elif kc == "narrow":
        l = rng.randint(1, 9)
        cons["c"] = ["i", l, min(10, l + rng.choice([1, 1, 2, 3]))]
    elif kc == "single":
        l = rng.randint(1, 10)
        cons["c"] = ["i", l, l]
    elif kc == "range":
        l = rng.randint(1, 5)
        cons["c"] = ["i", l, rng.randint(l + 4, 10)]
    elif kc == "wide":
        cons["c"] = ["i", rng.choice([-3, 0, 1]), rng.choice([10, 12, 40])]
    elif kc == "floatpair":
        l = rng.randint(1, 8)
        h = min(10, l + rng.randint(0, 3))
        cons["c"] = ["x", l, h, rng.random() < 0.7, rng.random() < 0.7]
    if cls == "noisy":
        ko = rng.choice(["absent", "absent", "zero", "zero", "pos", "int0", "int", "int00"])
        if ko == "zero":
            cons["o"] = ["f", hx(0.0)]
        elif ko == "pos":
            cons["o"] = ["f", hx(rng.choice([0.01, 0.1, 1.0]) * span)]
        elif ko == "int0":
            cons["o"] = ["i", hx(0.0), hx(rng.choice([0.05, 0.5]) * span)]
        elif ko == "int":
            cons["o"] = ["i", hx(0.01 * span), hx(0.3 * span)]
        elif ko == "int00":
            cons["o"] = ["i", hx(0.0), hx(0.0)]
    kv = rng.choice(["absent", "absent", "T", "F", "TF", "FT", "Tl", "Fl"])
    if kv in ("T", "F"):
        cons["convex"] = ["s", kv == "T"]
    elif kv in ("TF", "FT"):
        cons["convex"] = ["l", [True, False] if kv == "TF" else [False, True]]
    elif kv in ("Tl", "Fl"):
        cons["convex"] = ["l", [kv == "Tl"]]
    return cons


def make_case(cls, ys, dtype, lo, hi, cons, order=None):
    keys = [k for k in ("a", "b", "c", "o", "convex") if k in cons]
    return dict(cls=cls, ys=[hx(y) for y in ys], dtype=dtype, limits=[hx(lo), hx(hi)], constraints=cons,
                order=order or keys)


def degenerate_cases(rng):
    """the families named by the C11 quantifier and the findings of DESIGN §4, with concrete inputs"""
    out = []
    for cls in ("quad", "noisy"):
        o0 = {"o": ["f", hx(0.0)]} if cls == "noisy" else {}
        # F2: all uncensored observations equal to the upper limit
        out.append(make_case(cls, [1, 1, 1, 1, 1, 2], "int64", -INF, 1.0, dict(o0)))
        out.append(make_case(cls, [0.5, 0.5, 0.5, 0.9], "float64", -INF, 0.5, dict(o0)))
        # F2: a, b fixed with b at the upper limit and at most one distinct observation below it
        out.append(make_case(cls, [0.0, 1.0, 2.0], "float64", -INF, 0.8, dict(o0, a=["f", hx(0.0)], b=["f", hx(0.8)])))
        # F3: a and b fixed, c over fewer than five values
        out.append(make_case(cls, [0.1, 0.4, 0.5, 0.7, 0.9], "float64", -INF, INF,
                             dict({"o": ["f", hx(0.1)]} if cls == "noisy" else {}, a=["f", hx(0.0)], b=["f", hx(1.0)], c=["i", 6, 7])))
        out.append(make_case(cls, [0.1, 0.4, 0.5, 0.7, 0.9], "float64", -INF, INF,
                             dict(o0, a=["f", hx(0.0)], b=["f", hx(1.0)], c=["i", 3, 3])))
        # all observations equal
        out.append(make_case(cls, [2.0, 2.0, 2.0, 2.0], "float64", -INF, INF, dict(o0)))
        out.append(make_case(cls, [2.0, 2.0, 2.0, 2.0], "float64", -INF, INF, dict(o0, c=["f", 1], convex=["s", True])))
        # F6a: observations on the lower support edge
        out.append(make_case(cls, [1.0, 1.0, 2.0, 3.0], "float64", -INF, INF, dict(o0, a=["f", hx(1.0)])))
        out.append(make_case(cls, [0.0, 0.2, 0.2, 0.7, 1.0], "float64", -INF, INF,
                             dict(o0, a=["i", hx(0.0), hx(1.0)], b=["i", hx(0.0), hx(1.0)])))
        # F6b: a pinned to the lower limit with left-censored data
        out.append(make_case(cls, [0.1, 0.3, 0.5, 0.5, 0.8], "float64", 0.2, INF, dict(o0, a=["f", hx(0.2)])))
        # F6c: b pinned to the upper limit with right-censored data
        out.append(make_case(cls, [0.1, 0.4, 0.5, 0.7, 0.9, 1.3], "float64", -INF, 1.0, dict(o0, b=["f", hx(1.0)])))
        # F8: c interval with float end points
        out.append(make_case(cls, [0.1, 0.4, 0.5, 0.7, 0.9], "float64", -INF, INF, dict(c=["x", 2, 3, True, True])))
        # everything fixed (no optimiser call)
        out.append(make_case(cls, [0.1, 0.4, 0.5, 0.7, 0.9], "float64", -INF, INF,
                             dict({"o": ["f", hx(0.05)]} if cls == "noisy" else {}, a=["f", hx(0.0)], b=["f", hx(1.0)],
                                  c=["f", 2])))
        # float32 / integer input with limits
        out.append(make_case(cls, [float(np.float32(v)) for v in (0.11, 0.42, 0.42, 0.77, 0.93)], "float32", 0.2, INF,
                             dict(o0, c=["f", 2])))
        out.append(make_case(cls, [1, 2, 2, 3, 5, 8], "int64", 1.0, 5.0, dict(c=["i", 1, 2], convex=["s", False])))
    return out


# ------------------------------------------------------------------------------------- finding predicates

def finding_key_for(case, out, model=None):
    """explicit predicates on the failing input (and on what was observed)"""
    if out.get("outcome") != "exc":
        return None
    e = out["exc"]
    n, n_lower, n_upper, obs, lo, hi = observed_part(case)
    if e["cls"] == "IndexError" and n_upper > 0 and model is not None and model.get("buckets_lt_2"):
        return "F2-ks-index-right-censored-fewer-than-two-buckets"
    fr = free_of(case)
    if e["leaked"] and e["cls"] in ("ValueError", "LeakedOptimizerError") and "S > 4" in e["msg"] \
            and not fr["a"] and not fr["b"] and not fr["o"] and fr["c"] and len(cs_of(case)) < SCIPY_MIN_POP:
        return "F3-init-population-smaller-than-5"
    v = case["constraints"].get("c")
    if e["cls"] == "TypeError" and v is not None and v[0] == "x" and \
            ((v[3] and int(v[1]) > 1) or (v[4] and int(v[2]) < 10)):
        return "F8-c-interval-float-endpoints-range-TypeError"
    return None


# ------------------------------------------------------------------------------- model evaluation (4 phases)

def feq(x, y):
    """exact comparison of two floats handed over as public observables (0.0 == -0.0; NaN equals NaN)"""
    x, y = float(x), float(y)
    return x == y or (x != x and y != y)


def model_eval(drv, cases, outs, rep):
    """Run the Lean model on every case: plan -> buckets -> loss (at the probe points, with the library's
    cdf values) -> select.  Returns one dict per case (None where the model was not consulted)."""
    M = [None] * len(cases)
    # ---- phase 1: plan
    reqs, idx = [], []
    for i, (case, out) in enumerate(zip(cases, outs)):
        if out.get("bb") is None:
            continue
        reqs.append(plan_request(case, out["bb"]))
        idx.append(i)
    for i, r in zip(idx, drv.run(reqs)):
        if r is None:
            rep.disagree(op="fit.plan", note="model rejected a well-formed request", input=cases[i])
            continue
        M[i] = dict(plan=parse_plan(r))
    # ---- phase 2: buckets
    reqs, idx = [], []
    for i, (case, out) in enumerate(zip(cases, outs)):
        m = M[i]
        if m is None or m["plan"]["pre"] != "ok" or "decimals" not in out:
            continue
        n, n_lower, n_upper, obs, lo, hi = observed_part(case)
        dec = out["decimals"]
        obs_r = [rnd(y, dec) for y in obs]
        for pi, p in enumerate(m["plan"]["passes"]):
            if p.get("st") != "ok":
                continue
            reqs.append(buckets_request(p["cl"], rnd(p["elo"], dec), rnd(lo, dec) if n_lower > 0 else None, obs_r,
                                        rnd(hi, dec) if n_upper > 0 else None, rnd(p["ehi"], dec), n_lower, n_upper))
            idx.append((i, pi))
    for (i, pi), r in zip(idx, drv.run(reqs)):
        if r is None:
            rep.disagree(op="fit.buckets", note="model rejected a well-formed request", input=cases[i])
            continue
        M[i]["plan"]["passes"][pi]["buckets"] = parse_buckets(r)
    # ---- phase 3: loss at the probe points
    reqs, idx = [], []
    for i, (case, out) in enumerate(zip(cases, outs)):
        m = M[i]
        if m is None or m["plan"]["pre"] != "ok" or "passes" not in out:
            continue
        n = m["plan"]["n"]
        for pi, (p, sp) in enumerate(zip(m["plan"]["passes"], out["passes"])):
            b = p.get("buckets")
            if b is None or b["ks"] is None or "error" in sp:
                continue
            p["f_model"] = [None] * len(sp["thetas"])
            p["edges_match"] = all(any(feq(z, zz) for zz in sp["zs"]) for z in b["zs"]) and len(b["zs"]) == len(sp["zs"])
            if not p["edges_match"]:
                continue
            for j, F in enumerate(sp["F"]):
                if F is None:
                    p["f_model"][j] = INF   # no such distribution: the code's loss returns inf / raises
                    continue
                reqs.append(loss_request(case["cls"] == "noisy", n, b["ks"], F))
                idx.append((i, pi, j))
    for (i, pi, j), r in zip(idx, drv.run(reqs)):
        M[i]["plan"]["passes"][pi]["f_model"][j] = uh(r[0]) if r is not None else None
    # ---- phase 4: the loop outcome
    reqs, idx = [], []
    for i, (case, out) in enumerate(zip(cases, outs)):
        m = M[i]
        if m is None or m["plan"]["pre"] != "ok":
            continue
        passes, ci = [], 0
        nb, pop = m["plan"]["nb"], m["plan"]["pop"]
        ok = True
        for pi, p in enumerate(m["plan"]["passes"]):
            d = dict(plan_err=None if p.get("st") == "ok" else p.get("st"), buckets_ok=True, nb=nb, pop=pop,
                     fun=0.0, x=[])
            if p.get("st") == "ok":
                b = p.get("buckets")
                d["buckets_ok"] = b is not None and b["ks"] is not None
                if nb > 0:
                    if ci < len(out.get("calls", [])) and out["calls"][ci].get("result_x") is not None:
                        d["fun"], d["x"] = out["calls"][ci]["result_fun"], out["calls"][ci]["result_x"]
                    ci += 1
                else:
                    fm = (p.get("f_model") or [None])[0]
                    if fm is None:
                        ok = ok and not d["buckets_ok"]
                        fm = 0.0
                    d["fun"] = fm
            passes.append(d)
        m["select_inputs"] = passes
        if ok:
            reqs.append(select_request(case, passes))
            idx.append(i)
    for i, r in zip(idx, drv.run(reqs)):
        if r is None:
            rep.disagree(op="fit.select", note="model rejected a well-formed request", input=cases[i])
            continue
        if r[0] == "ok":
            M[i]["select"] = dict(kind="ok", idx=int(r[1]), a=uh(r[2]), b=uh(r[3]), c=uh(r[4]), o=uh(r[5]))
        else:
            M[i]["select"] = dict(kind="err", exc=r[1])
    return M


def model_prediction(case, m):
    """the model's predicted outcome of the call: ('ok', params) | ('exc', class name)"""
    if m is None:
        return None
    pre = m["plan"]["pre"]
    if pre != "ok":
        return ("exc", pre)
    sel = m.get("select")
    if sel is None:
        return None
    if sel["kind"] == "err":
        return ("exc", sel["exc"])
    return ("ok", sel)


CONFORMING = ("ValueError", "OptimizationError")
MODEL_DEFECT_CLASSES = {"IndexError": "IndexError", "ScipyValueError": "LeakedOptimizerError",
                        "RangeTypeError": "TypeError"}


def check_summary(rep, case, out, m):
    """model vs Spec on the censoring bookkeeping (both are ours: a difference is a harness/model defect)"""
    pl, s, bb = m["plan"], out["summary"], out["bb"]
    if (pl["n"], pl["nl"], pl["nu"], pl["nobs"]) != (s["n"], s["n_lower"], s["n_upper"], s["n_obs"]):
        rep.disagree(op="fit.plan", note="censoring counts differ between model and Spec", input=case,
                     model=[pl["n"], pl["nl"], pl["nu"], pl["nobs"]], spec=s)
        return False
    if pl["pre"] == "ok" and (pl["imin"], pl["jmax"]) != (bb["i_min"], bb["j_max"]):
        rep.disagree(op="fit.plan", note="ranks i_min/j_max differ between model and Spec", input=case)
        return False
    return True


def spec_infeasible(out):
    """does the documented objective assign zero likelihood to the data for every parameter vector of some
    pass, under every admissible reading (censored observations beyond a support edge, observations outside
    the hull of the candidate supports)?  Then no finite-objective optimiser run exists for that pass and
    raising ValueError / OptimizationError is what the documentation implies."""
    for sp in out.get("passes", []):
        if "error" in sp:
            continue
        if not sp["feasible"] and (sp.get("alt") is None or not sp["alt"][1]):
            return True
    return False
