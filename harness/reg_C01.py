REG = dict(
    timeout=dict(quick=900, thorough=3000),
    trusted_base=[
        "CITED, NOT PROVED: Steck (1971) determinant for the rectangle probability of uniform order statistics (evaluated exactly "
        "in Q by OpdaModel/Steck.lean; agrees with scipy.stats.kstwo to 1e-15 on the ks tables)",
        "CITED, NOT PROVED: Dvoretzky-Kiefer-Wolfowitz inequality with Massart's constant (named hypothesis hDKW of "
        "dkw_coverage_of_massart); probability-integral transform F(Y_(i)) ~ uniform order statistics for continuous F",
        "the law Beta(cN,(1-c)N+1) of the simulated critical value's coverage (ld methods) and scipy.stats.beta.ppf for its quantiles",
        "level tables are read off the returned distributions through their public cdf (doubles taken as exact rationals)",
    ],
    assumptions=["continuous F (no ties)", "n_jobs=1 in the check (n_jobs independence is C14)"],
)
TEXT = dict(
    level="Partial proof. Proved (universal): band contains every continuous non-decreasing F everywhere iff F passes through the box "
          "L_i <= F(y_(i)) <= U_{i-1} at the order statistics (so coverage is one rectangle probability for all F); for dkw/ks tables "
          "the box is the Kolmogorov distance <= eps; the DKW radius solves 2exp(-2n eps^2)=1-c, is monotone in c and antitone in n; "
          "dkw coverage >= c conditional on the cited DKW-Massart inequality; ld box <-> test statistic. Evaluated on every run, not "
          "proved: the rectangle probability itself, exactly in Q (Steck) on the code's own level tables: dkw >= c, ks = c +- 1e-12, "
          "ld inside the stated Beta interval, for n <= 40 (80 thorough), confidences incl. 0 and 1, finite and infinite bounds.",
    note="The headline probability statement rests on two cited theorems (Steck; DKW-Massart) and on the exact evaluation, not on a "
         "Lean proof; the reduction to the box, the dkw radius and the ld test duality are Lean theorems. n beyond 80 is not evaluated.",
    technique="Lean 4 proof of the reduction (order-statistic box) + exact rational evaluation of the boundary-crossing probability on the code's tables",
)
