REG = dict(
    timeout=dict(quick=900, thorough=3000),
    trusted_base=[
        "PROVED (no longer trusted): the rectangle probability P[alpha_i <= U_(i) <= beta_i for all i] of n independent uniforms is the "
        "rational returned by Opda.RectProb.coverage (driver op band.rect), for all rational level lists in [0,1] "
        "(Props/C01: rect_coverage_is_sum_over_assignments, rect_coverage_is_volume, rect_coverage_is_volume_order_statistics, "
        "band_coverage_is_rect_coverage). Steck's (1971) determinant (OpdaModel/Steck.lean, identity cited, not proved) is only a "
        "second evaluator: it must return the same rational on every table (a difference is reported as a correspondence failure)",
        "PROVED (no longer trusted): probability-integral transform: for a probability measure nu on R with continuous distribution "
        "function F (equivalently: no atoms), F(Y) is uniform on [0,1], (F(Y_1),...,F(Y_n)) are n independent uniforms, and the "
        "probability under the n-fold product of nu that the band contains F at every t is Opda.RectProb.coverage of the level tables, "
        "the same for every such nu (Props/C01: pit_map, pit_sublevel, pit_product, continuous_cdf_iff_no_atoms, "
        "band_coverage_any_continuous_F; lemmas in OpdaProofs/RectPIT.lean)",
        "CITED, NOT PROVED: Dvoretzky-Kiefer-Wolfowitz inequality with Massart's constant (named hypothesis hDKW of "
        "dkw_coverage_of_massart)",
        "PROVED (no longer trusted): the Beta law of a simulated order statistic (ld methods): for N i.i.d. draws T_1..T_N from any "
        "probability measure with continuous distribution function F, F(T_(k)) ~ Beta(k, N+1-k) (1-based), i.e. P[F(T_(k)) <= t] is the "
        "binomial tail sum_{j>=k} C(N,j) t^j (1-t)^(N-j) = the integral of the normalised Beta density (Props/C01: count_below_is_binomial, "
        "uniform_order_statistic_cdf, uniform_order_statistic_is_beta, simulated_critical_value_coverage_is_beta); and for a critical "
        "value between T_(k) and T_(k') (the linear interpolation np.quantile returns) the distribution function of its coverage lies "
        "between those of Beta(k', N+1-k') and Beta(k, N+1-k) (interpolated_critical_value_coverage_between_betas); lemmas in "
        "OpdaProofs/OrderStatBeta.lean. The coverage of the code's critical value is therefore NOT claimed to be Beta distributed: it "
        "is bracketed by two Beta variables, and the accepted window runs from the lower 5e-11 quantile of Beta(k, N+1-k) to the upper "
        "5e-11 quantile of Beta(k+1, N-k), k = c*N (an integer for every confidence of the ld stratum; then floor(c(N-1))+1 = k for 0<c<1)",
        "PROVED (no longer trusted) for ld_equal_tailed: the law of the simulated statistic max_i cov_i(U_(i)) has a continuous "
        "distribution function. For n >= 1 independent uniforms and any functions c_i with finite (or Lebesgue-null) level sets in "
        "[0,1], P[max_i c_i(U_(i)) = t] = 0 for every t (ld_statistic_no_atoms); for measurable c_i the law is a probability measure "
        "whose distribution function is continuous and equals the band coverage at the critical value (ld_statistic_cdf_continuous, "
        "ld_law_cdf_is_band_coverage); 2|1/2 - G x| has level sets of at most two points for G strictly increasing on [0,1] "
        "(equal_tailed_level_sets) and the Beta(a,b) distribution function is strictly increasing on [0,1] "
        "(beta_cdf_strictly_increasing), so the Beta theorems hold for ld_equal_tailed without the continuity hypothesis "
        "(ld_equal_tailed_critical_value_coverage_is_beta, ld_equal_tailed_interpolated_critical_value_between_betas); lemmas in "
        "OpdaProofs/LdStat.lean",
        "PROVED (no longer trusted) for ld_highest_density, n >= 2: the coverage function hdcov(a,b)(x) = Beta(a,b)-mass of the level set "
        "of the density through x (= of the smallest highest-density interval containing x; C15 hdcov_spec, "
        "hd_coverage_is_mass_of_shortest_interval_left/right) is measurable, strictly decreasing on [0,m] and strictly increasing on "
        "[m,1], m the mode (C15 hd_coverage_v_shaped; a = 1 / b = 1: mode at an end point, strictly monotone), so the functions "
        "hdcov(i+1, n-i) have level sets of at most two points (ld_highest_density_coverage_functions_v_shaped), the statistic has a "
        "continuous distribution function (ld_highest_density_cdf_continuous) and the Beta theorems hold without hypothesis "
        "(ld_highest_density_critical_value_coverage_is_beta, ld_highest_density_interpolated_critical_value_between_betas); lemmas in "
        "OpdaProofs/BetaHdV.lean. These are statements about the real functions; that the code's float bisection realises hdcov is "
        "compared in C15 (the exact bracket of beta.hdcov provably contains hdcov), not proved",
        "TRUSTED for the ld window: (i) np.quantile(ts, c) is the linear interpolation between the order statistics "
        "number floor(c(N-1))+1 and the next one (1-based; numpy's documented default, not formalised); (ii) scipy.stats.beta.ppf for "
        "the two window quantiles (compared against the exact binomial polynomial in C15)",
        "level tables are read off the returned distributions through their public cdf (doubles taken as exact rationals); the "
        "hypotheses of the theorems are checked on every table before it is evaluated: levels in [0,1], non-decreasing, "
        "lower level 0 below the sample, upper level 1 at the largest observation",
        "large n (> 80): Durbin / Marsaglia-Tsang-Wang matrix algorithm for P[D_n <= eps], cross-checked against scipy.stats.kstwo",
        "CITED, NOT PROVED, n >= 100 000 only: the Pelz-Good (1976) expansion K0 + K1/n^(1/2) + K2/n + K3/n^(3/2) of P[D_n <= eps] "
        "(harness/ks_oracle.py, mpmath); validated in every run against the matrix algorithm on that run's eps values at n >= 5000 "
        "(incl. n = 5000 and 20000) to 1e-7 -- otherwise the stratum is skipped, never judged",
    ],
    assumptions=["continuous F (no ties)", "ld methods: n_jobs in {1, 2, 3, 4, 16, None} (worker counts that divide n, do not divide n, exceed n); "
                 "dkw/ks: n_jobs=1 (they do not use it; bitwise n_jobs independence is C14)"],
)
TEXT = dict(
    level="Partial proof. Proved (universal): band contains every continuous non-decreasing F everywhere iff F passes through the box "
          "L_i <= F(y_(i)) <= U_{i-1} at the order statistics (so coverage is one rectangle probability for all F); the exact-Q evaluator "
          "band.rect (dynamic programme over the cells between levels) equals the probability of that rectangle under the product "
          "measure of n independent uniforms, hence the probability that the band contains the uniform CDF everywhere "
          "(finite combinatorics + Measure.pi; no citation); the probability integral transform (F(Y_j) independent uniforms for every "
          "probability measure with continuous distribution function) and with it the end-to-end statement: for n i.i.d. draws from ANY "
          "such measure the probability that the band contains the true CDF everywhere equals band.rect on the level tables "
          "(band_coverage_any_continuous_F; non-vacuous: standard normal, uniform); for dkw/ks tables the box is the Kolmogorov distance <= eps; the DKW "
          "radius solves 2exp(-2n eps^2)=1-c, is monotone in c and antitone in n; dkw coverage >= c conditional on the cited "
          "DKW-Massart inequality; ld box <-> test statistic; the Beta law of a simulated order statistic: for N i.i.d. draws from any "
          "probability measure with continuous distribution function F, P[F(T_(k)) <= t] = Beta(k, N+1-k) distribution function (binomial "
          "count of draws below t under the product measure + probability integral transform), and the coverage of a critical value "
          "interpolated between T_(k) and T_(k+1) (np.quantile) has its distribution function between those of Beta(k+1, N-k) and "
          "Beta(k, N+1-k) -- a bracket, not a Beta law; the statistic max_i c_i(U_(i)) has no atoms whenever the c_i have finite level sets in "
          "[0,1], so its distribution function is continuous -- unconditionally for ld_equal_tailed (Beta distribution functions "
          "are strictly increasing on [0,1]) and for ld_highest_density, n >= 2 (the highest-density coverage function is strictly "
          "decreasing up to the mode and strictly increasing after it). Evaluated on every run with the proved evaluator on the code's own "
          "level tables: dkw >= c, ks = c +- 1e-12, ld inside the stated Beta interval, for n <= 40 (80 thorough), confidences incl. 0 "
          "and 1, finite and infinite bounds; Steck's determinant is evaluated alongside and must agree exactly.",
    note="For every continuous F the probability that a band with given level tables contains F everywhere is now a Lean theorem "
         "(rectangle probability, evaluated per table for n <= 80, + probability-integral transform; neither is cited any more); "
         "DKW-Massart is only needed for the universal dkw claim beyond the evaluated tables. The Beta law of a simulated order statistic "
         "(ld) is now a Lean theorem too, with the honest reading that the code's interpolated critical value has a coverage between two "
         "Beta variables; the continuity of the statistic's distribution function is a theorem for both ld families (no atoms: finite "
         "level sets of the coverage functions: at most two points, for the equal-tailed family about the median and for the "
         "highest-density family, n >= 2, about the mode) -- nothing about the level sets is assumed any more; "
         "numpy's interpolation rule is assumed. n beyond 80 is evaluated by the Durbin matrix oracle for dkw/ks only.",
    technique="Lean 4 proof of the reduction (order-statistic box) and of the exact evaluator (cell decomposition of the unit cube, "
              "product measure), of the probability integral transform (sub-level sets of a continuous CDF are half-lines; "
              "Measure.pi_map_pi; a monotone map commutes with order statistics), of the binomial law of the count below a level under a product measure "
              "(disjoint boxes indexed by the subset of coordinates below the level; Measure.pi_pi; grouping subsets by size) and its "
              "identification with the Beta distribution function of C15 (derivative of the binomial tail telescopes), of the absence of atoms of the ld statistic (a coordinate of the uniform "
              "product measure avoids null sets; strict monotonicity of the Beta distribution function from its positive derivative; the highest-density coverage function defined through sup/inf of the density's level set across the mode, V shape from strict unimodality of the density and strict monotonicity of the Beta distribution function, measurability from interval sublevel sets) + exact rational evaluation of the boundary-crossing probability on the code's tables",
)
