REG = dict(
    timeout=dict(quick=900, thorough=3000),
    trusted_base=[
        "PROVED (no longer trusted): the rectangle probability P[alpha_i <= U_(i) <= beta_i for all i] of n independent uniforms is the "
        "rational returned by Opda.RectProb.coverage (driver op band.rect), for all rational level lists in [0,1] "
        "(Props/C01: rect_coverage_is_sum_over_assignments, rect_coverage_is_volume, rect_coverage_is_volume_order_statistics, "
        "band_coverage_is_rect_coverage). Steck's (1971) determinant (OpdaModel/Steck.lean, identity cited, not proved) is only a "
        "second evaluator: it must return the same rational on every table (a difference is reported as a correspondence failure)",
        "PROVED (no longer trusted): probability-integral transform: for a probability measure nu on R with continuous distribution "
        "function F (equivalently: no atoms), F(Y) is uniform on [0,1], (F(Y_1),...,F(Y_n)) are n independent uniforms, and the "
        "probability under the n-fold product of nu that the band contains F at every t is Opda.RectProb.coverage of the level tables, "
        "the same for every such nu (Props/C01: pit_map, pit_sublevel, pit_product, continuous_cdf_iff_no_atoms, "
        "band_coverage_any_continuous_F; lemmas in OpdaProofs/RectPIT.lean)",
        "CITED, NOT PROVED: Dvoretzky-Kiefer-Wolfowitz inequality with Massart's constant (named hypothesis hDKW of "
        "dkw_coverage_of_massart)",
        "the law Beta(cN,(1-c)N+1) of the simulated critical value's coverage (ld methods) and scipy.stats.beta.ppf for its quantiles",
        "level tables are read off the returned distributions through their public cdf (doubles taken as exact rationals); the "
        "hypotheses of the theorems are checked on every table before it is evaluated: levels in [0,1], non-decreasing, "
        "lower level 0 below the sample, upper level 1 at the largest observation",
        "large n (> 80): Durbin / Marsaglia-Tsang-Wang matrix algorithm for P[D_n <= eps], cross-checked against scipy.stats.kstwo",
    ],
    assumptions=["continuous F (no ties)", "n_jobs=1 in the check (n_jobs independence is C14)"],
)
TEXT = dict(
    level="Partial proof. Proved (universal): band contains every continuous non-decreasing F everywhere iff F passes through the box "
          "L_i <= F(y_(i)) <= U_{i-1} at the order statistics (so coverage is one rectangle probability for all F); the exact-Q evaluator "
          "band.rect (dynamic programme over the cells between levels) equals the probability of that rectangle under the product "
          "measure of n independent uniforms, hence the probability that the band contains the uniform CDF everywhere "
          "(finite combinatorics + Measure.pi; no citation); the probability integral transform (F(Y_j) independent uniforms for every "
          "probability measure with continuous distribution function) and with it the end-to-end statement: for n i.i.d. draws from ANY "
          "such measure the probability that the band contains the true CDF everywhere equals band.rect on the level tables "
          "(band_coverage_any_continuous_F; non-vacuous: standard normal, uniform); for dkw/ks tables the box is the Kolmogorov distance <= eps; the DKW "
          "radius solves 2exp(-2n eps^2)=1-c, is monotone in c and antitone in n; dkw coverage >= c conditional on the cited "
          "DKW-Massart inequality; ld box <-> test statistic. Evaluated on every run with the proved evaluator on the code's own "
          "level tables: dkw >= c, ks = c +- 1e-12, ld inside the stated Beta interval, for n <= 40 (80 thorough), confidences incl. 0 "
          "and 1, finite and infinite bounds; Steck's determinant is evaluated alongside and must agree exactly.",
    note="For every continuous F the probability that a band with given level tables contains F everywhere is now a Lean theorem "
         "(rectangle probability, evaluated per table for n <= 80, + probability-integral transform; neither is cited any more); "
         "DKW-Massart is only needed for the universal dkw claim beyond the evaluated tables, the Beta law of the simulated critical "
         "value (ld) stays cited. n beyond 80 is evaluated by the Durbin matrix oracle for dkw/ks only.",
    technique="Lean 4 proof of the reduction (order-statistic box) and of the exact evaluator (cell decomposition of the unit cube, "
              "product measure), of the probability integral transform (sub-level sets of a continuous CDF are half-lines; "
              "Measure.pi_map_pi; a monotone map commutes with order statistics) + exact rational evaluation of the boundary-crossing probability on the code's tables",
)
