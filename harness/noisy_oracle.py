"""Spec oracle for C06/C07: the law of Z + E, Z ~ Quadratic(a, b, c, shape), E ~ Normal(0, o^2), evaluated by
adaptive quadrature in mpmath (30 digits), independently of the code under test and of the Lean model.

Normalised problem (w = b - a, s = o / w): X in [0, 1] with cdf x^(c/2);  H(t) = P[X + s N <= t], h = H'.
  convex :  cdf(y) = H((y - a)/w),          w * pdf(y) = h((y - a)/w)
  concave:  cdf(y) = 1 - H((b - y)/w),      w * pdf(y) = h((b - y)/w)
Two algebraically different integrals are available for each (substitution x = u^2 removes the x^(-1/2)
singularity of c = 1):
  H1 = int_0^1 c u^(c-1) Phi((t - u^2)/s) du                      (mixture over Z of normal cdfs)
  H2 = Phi((t - 1)/s) + int_0^1 2 u^(c+1) phi((t - u^2)/s)/s du    (after integration by parts: the formula
                                                                    the implementation is built on)
  h1 = int_0^1 c u^(c-1) phi((t - u^2)/s)/s du
  h2 = -(c/2) Phi((t-1)/s) + int_0^1 (c/2)(c-2) u^(c-3) Phi((t - u^2)/s) du   (c >= 3);  Phi(t/s) - Phi((t-1)/s)  (c = 2)
The integrand is cut to |t - u^2| <= 13 s (outside, Phi is 0 or 1 to 6e-39) and split at 0, +-1, +-3, +-6 s.
"""
import common as C  # noqa: F401  (puts /verif/.vendor on sys.path)
import mpmath as mp

mp.mp.dps = 30
T = 13


def _breaks(t, s):
    pts = set()
    for j in (-T, -6, -3, -1, 0, 1, 3, 6, T):
        x = t + j * s
        x = min(max(x, mp.mpf(0)), mp.mpf(1))
        pts.add(mp.sqrt(x))
    return sorted(pts)


def _quad(f, pts):
    if len(pts) < 2:
        return mp.mpf(0)
    return mp.quad(f, pts)


def H1(t, c, s):
    t, s = mp.mpf(t), mp.mpf(s)
    pts = _breaks(t, s)
    return pts[0] ** c + _quad(lambda u: c * u ** (c - 1) * mp.ncdf((t - u * u) / s), pts)


def H2(t, c, s):
    t, s = mp.mpf(t), mp.mpf(s)
    pts = _breaks(t, s)
    return mp.ncdf((t - 1) / s) + _quad(lambda u: 2 * u ** (c + 1) * mp.npdf((t - u * u) / s) / s, pts)


def h1(t, c, s):
    t, s = mp.mpf(t), mp.mpf(s)
    pts = _breaks(t, s)
    return _quad(lambda u: c * u ** (c - 1) * mp.npdf((t - u * u) / s) / s, pts)


def h2(t, c, s):
    t, s = mp.mpf(t), mp.mpf(s)
    if c == 1:
        return None
    if c == 2:
        return mp.ncdf(t / s) - mp.ncdf((t - 1) / s)
    pts = _breaks(t, s)
    hc = mp.mpf(c) / 2
    return (-hc * mp.ncdf((t - 1) / s) + hc * pts[0] ** (c - 2)
            + _quad(lambda u: hc * (c - 2) * u ** (c - 3) * mp.ncdf((t - u * u) / s), pts))


class Oracle:
    """true cdf / (b-a)*pdf of NoisyQuadratic(a, b, c, o, convex) at y; all arguments are Python floats
    (read exactly).  `cross` = evaluate the second integral too and record the discrepancy."""

    def __init__(self):
        self.calls = 0
        self.max_cross = mp.mpf(0)

    def _t(self, a, b, convex, y):
        a, b, y = mp.mpf(a), mp.mpf(b), mp.mpf(y)
        return (y - a) / (b - a) if convex else (b - y) / (b - a)

    def cdf(self, a, b, c, o, convex, y, cross=False):
        self.calls += 1
        if y == float("inf"):
            return mp.mpf(1)
        if y == float("-inf"):
            return mp.mpf(0)
        if a == b:
            if o == 0:
                return mp.mpf(0) if y < a else mp.mpf(1)
            return mp.ncdf((mp.mpf(y) - mp.mpf(a)) / mp.mpf(o))
        t = self._t(a, b, convex, y)
        if o == 0:
            tt = min(max(t, mp.mpf(0)), mp.mpf(1))
            H = tt ** (mp.mpf(c) / 2)
        else:
            s = mp.mpf(o) / (mp.mpf(b) - mp.mpf(a))
            H = H1(t, c, s)
            if cross:
                self.max_cross = max(self.max_cross, abs(H - H2(t, c, s)))
        return H if convex else 1 - H

    def wpdf(self, a, b, c, o, convex, y, cross=False):
        """(b - a) * density, for a < b;  None where the density is a matter of convention (o = 0 at the ends)"""
        self.calls += 1
        if abs(y) == float("inf"):
            return mp.mpf(0)
        t = self._t(a, b, convex, y)
        if o == 0:
            if t < 0 or t > 1:
                return mp.mpf(0)
            if t == 0 or t == 1:
                return None
            return (mp.mpf(c) / 2) * t ** (mp.mpf(c) / 2 - 1)
        s = mp.mpf(o) / (mp.mpf(b) - mp.mpf(a))
        v = h1(t, c, s)
        if cross:
            v2 = h2(t, c, s)
            if v2 is not None:
                self.max_cross = max(self.max_cross, abs(v - v2) / max(1, abs(v)))
        return v

    def normal_pdf_o(self, a, o, y):
        """o * density of Normal(a, o^2) at y"""
        return mp.npdf((mp.mpf(y) - mp.mpf(a)) / mp.mpf(o))
