"""Structured generators for empirical-distribution inputs (shared by C02, C03, C04, C13)."""
import math
import numpy as np

np.seterr(over='ignore')

INF = float("inf")


def gen_values(rng, n, allow_inf=True):
    mode = rng.choice(["grid", "grid", "random", "mixed", "rounded", "const", "wide"])
    if mode == "grid":
        g = [rng.choice([-2.0, -1.0, -0.5, 0.0, 0.25, 0.5, 1.0, 3.0]) for _ in range(n)]
    elif mode == "random":
        g = [rng.uniform(-1, 1) for _ in range(n)]
    elif mode == "mixed":
        base = [rng.uniform(-5, 5) for _ in range(max(1, n // 2))]
        g = [rng.choice(base) for _ in range(n)]
    elif mode == "rounded":
        g = [round(rng.gauss(0, 1), 1) for _ in range(n)]
    elif mode == "const":
        v = rng.choice([0.0, 1.0, -3.5, 1e-300, 1e300])
        g = [v] * n
    else:
        g = [rng.choice([-1, 1]) * 10.0 ** rng.uniform(-300, 300) for _ in range(n)]
    if allow_inf and rng.random() < 0.15:
        k = rng.randrange(n)
        g[k] = rng.choice([INF, -INF])
        if rng.random() < 0.3 and n > 1:
            g[rng.randrange(n)] = rng.choice([INF, -INF])
    return g


def gen_weights(rng, n):
    """None, or weights summing to 1 (float rounding only), with exact zeros allowed"""
    mode = rng.choice(["none", "none", "ints", "zeros", "near_uniform", "skew"])
    if mode == "none":
        return None
    if mode == "ints":
        ks = [rng.randint(1, 9) for _ in range(n)]
    elif mode == "zeros":
        ks = [rng.choice([0, 0, 1, 2, 5]) for _ in range(n)]
        if sum(ks) == 0:
            ks[rng.randrange(n)] = 1
    elif mode == "near_uniform":
        ks = [1000 + rng.randint(-1, 1) for _ in range(n)]
    else:
        ks = [rng.choice([1, 10, 1000, 10 ** 6]) for _ in range(n)]
    s = sum(ks)
    ws = [k / s for k in ks]
    if abs(math.fsum(ws) - 1.0) > 5e-11 or abs(float(np.sum(np.array(ws))) - 1.0) > 5e-11:
        return None
    return ws


def gen_bounds(rng, ys):
    lo, hi = min(ys), max(ys)
    def below(v):
        if abs(v) == INF:
            return rng.choice([v, -INF])
        return rng.choice([v, v, -INF, v - 1.0, v - abs(v) * 0.5 - 1e-3, np.nextafter(v, -INF)])
    def above(v):
        if abs(v) == INF:
            return rng.choice([v, INF])
        return rng.choice([v, v, INF, v + 1.0, v + abs(v) * 0.5 + 1e-3, np.nextafter(v, INF)])
    a, b = float(below(lo)), float(above(hi))
    if a > lo:
        a = lo
    if b < hi:
        b = hi
    return a, b


def gen_queries(rng, ys, a, b):
    pts = set()
    fin = sorted(set(v for v in list(ys) + [a, b] if abs(v) != INF))
    for v in fin:
        pts.add(v)
        pts.add(float(np.nextafter(v, INF)))
        pts.add(float(np.nextafter(v, -INF)))
    for u, v in zip(fin, fin[1:]):
        m = u / 2 + v / 2
        if abs(m) != INF:
            pts.add(m)
    pts.update([INF, -INF, 0.0])
    if fin:
        pts.add(fin[0] - 1.0)
        pts.add(fin[-1] + 1.0)
    pts = [p for p in pts if p == p]
    rng.shuffle(pts)
    return pts[:60]
