"""Structured generators for empirical-distribution inputs (shared by C02, C03, C04, C13)."""
import math
import numpy as np

np.seterr(over='ignore')

INF = float("inf")


def gen_values(rng, n, allow_inf=True):
    mode = rng.choice(["grid", "grid", "random", "mixed", "rounded", "const", "wide"])
    if mode == "grid":
        g = [rng.choice([-2.0, -1.0, -0.5, 0.0, 0.25, 0.5, 1.0, 3.0]) for _ in range(n)]
    elif mode == "random":
        g = [rng.uniform(-1, 1) for _ in range(n)]
    elif mode == "mixed":
        base = [rng.uniform(-5, 5) for _ in range(max(1, n // 2))]
        g = [rng.choice(base) for _ in range(n)]
    elif mode == "rounded":
        g = [round(rng.gauss(0, 1), 1) for _ in range(n)]
    elif mode == "const":
        v = rng.choice([0.0, 1.0, -3.5, 1e-300, 1e300])
        g = [v] * n
    else:
        g = [rng.choice([-1, 1]) * 10.0 ** rng.uniform(-300, 300) for _ in range(n)]
    if allow_inf and rng.random() < 0.15:
        k = rng.randrange(n)
        g[k] = rng.choice([INF, -INF])
        if rng.random() < 0.3 and n > 1:
            g[rng.randrange(n)] = rng.choice([INF, -INF])
    return g


def gen_weights(rng, n):
    """None, or weights summing to 1 (float rounding only), with exact zeros allowed"""
    mode = rng.choice(["none", "none", "ints", "zeros", "near_uniform", "skew"])
    if mode == "none":
        return None
    if mode == "ints":
        ks = [rng.randint(1, 9) for _ in range(n)]
    elif mode == "zeros":
        ks = [rng.choice([0, 0, 1, 2, 5]) for _ in range(n)]
        if sum(ks) == 0:
            ks[rng.randrange(n)] = 1
    elif mode == "near_uniform":
        ks = [1000 + rng.randint(-1, 1) for _ in range(n)]
    else:
        ks = [rng.choice([1, 10, 1000, 10 ** 6]) for _ in range(n)]
    s = sum(ks)
    ws = [k / s for k in ks]
    if abs(math.fsum(ws) - 1.0) > 5e-11 or abs(float(np.sum(np.array(ws))) - 1.0) > 5e-11:
        return None
    return ws


def gen_bounds(rng, ys):
    lo, hi = min(ys), max(ys)
    def below(v):
        if abs(v) == INF:
            return rng.choice([v, -INF])
        return rng.choice([v, v, -INF, v - 1.0, v - abs(v) * 0.5 - 1e-3, np.nextafter(v, -INF)])
    def above(v):
        if abs(v) == INF:
            return rng.choice([v, INF])
        return rng.choice([v, v, INF, v + 1.0, v + abs(v) * 0.5 + 1e-3, np.nextafter(v, INF)])
    a, b = float(below(lo)), float(above(hi))
    if a > lo:
        a = lo
    if b < hi:
        b = hi
    return a, b


def gen_queries(rng, ys, a, b):
    pts = set()
    fin = sorted(set(v for v in list(ys) + [a, b] if abs(v) != INF))
    for v in fin:
        pts.add(v)
        pts.add(float(np.nextafter(v, INF)))
        pts.add(float(np.nextafter(v, -INF)))
    for u, v in zip(fin, fin[1:]):
        m = u / 2 + v / 2
        if abs(m) != INF:
            pts.add(m)
    pts.update([INF, -INF, 0.0])
    if fin:
        pts.add(fin[0] - 1.0)
        pts.add(fin[-1] + 1.0)
    pts = [p for p in pts if p == p]
    rng.shuffle(pts)
    return pts[:60]


def gen_weights_near_uniform(rng, n):
    """Weights within a relative delta of the uniform ones, delta log-uniform over 1e-15 .. 1e-4, renormalised: `1/n * (1 +- delta)`.
    (A tolerance-based "are these weights equal?" shortcut is exact only if delta is 0; the step function is about the weights
    that were given.)  Returns (ws, delta, pattern); ws may round to exactly uniform for the smallest deltas (counted by callers)."""
    delta = 10.0 ** rng.uniform(-15, -4)
    pattern = rng.choice(["alternate", "signs", "one_up", "ramp", "random"])
    if pattern == "alternate":
        s = [1.0 if i % 2 == 0 else -1.0 for i in range(n)]
    elif pattern == "signs":
        s = [rng.choice([-1.0, 1.0]) for _ in range(n)]
    elif pattern == "one_up":
        s = [0.0] * n
        s[rng.randrange(n)] = 1.0
    elif pattern == "ramp":
        s = [(2.0 * i / (n - 1) - 1.0) if n > 1 else 1.0 for i in range(n)]
    else:
        s = [rng.uniform(-1, 1) for _ in range(n)]
    raw = [(1.0 + delta * x) / n for x in s]
    tot = math.fsum(raw)
    ws = [w / tot for w in raw]
    if abs(math.fsum(ws) - 1.0) > 5e-11 or abs(float(np.sum(np.array(ws))) - 1.0) > 5e-11:
        return None, delta, pattern
    return ws, delta, pattern


_INT_RANGES = {
    "counts": (0, 12), "u8": (0, 2 ** 8 - 1), "i8": (-2 ** 7, 2 ** 7 - 1), "u16": (0, 2 ** 16 - 1), "i16": (-2 ** 15, 2 ** 15 - 1),
    "u32": (0, 2 ** 32 - 1), "i32": (-2 ** 31, 2 ** 31 - 1), "u53": (0, 2 ** 53), "i53": (-2 ** 53, 2 ** 53),
}


def gen_int_values(rng, n, unsorted=True):
    """Integer-valued finite observations (returned as Python floats, all exactly representable) whose range makes each integer
    width, signed and unsigned, the narrowest holder in some stratum; values at the ends of the range are over-represented (that is
    where differences of neighbours leave the dtype).  The sample is left in the order drawn (not ascending unless it cannot be
    helped), because "the sample happens to be sorted" is a special case of its own.  Returns (values, range_label)."""
    label = rng.choice(list(_INT_RANGES))
    lo, hi = _INT_RANGES[label]
    style = rng.choice(["uniform", "ends", "cluster", "ties"])
    base = [rng.randint(lo, hi) for _ in range(max(1, n // 3))]
    vals = []
    for _ in range(n):
        if style == "ends" or rng.random() < 0.2:
            v = rng.choice([lo, hi, lo + 1, hi - 1, lo + (hi - lo) // 2, rng.randint(lo, hi)])
        elif style == "cluster":
            v = min(hi, max(lo, rng.choice(base) + rng.randint(-3, 3)))
        elif style == "ties":
            v = rng.choice(base)
        else:
            v = rng.randint(lo, hi)
        vals.append(v)
    if unsorted and n > 1 and len(set(vals)) > 1:
        for _ in range(20):
            if any(x > y for x, y in zip(vals, vals[1:])):
                break
            rng.shuffle(vals)
    return [float(v) for v in vals], label


def caller_mutation(rng, ys, ws=None):
    """The caller goes on using the arrays it built a distribution from: ONE in-place modification of the float64 ndarray `ys`
    (and/or of the weight ndarray `ws`) of the kind user code performs on its own buffers -- sort, reverse, negate, rescale, refill
    with the next sample, overwrite one entry, permute / zero / renormalise weights.  The statement is executed here with `exec`
    and returned as text, so the replay quotes exactly what ran.  (An instance must keep describing the sample it was given at
    construction: the oracle works on copies taken before construction.)  No statement produces NaN."""
    n = len(ys)
    k = rng.randrange(2 ** 31)
    i = rng.randrange(n)
    opts = [
        "ys.sort()", "ys[:] = ys[::-1].copy()", "ys[:] = -ys", "ys *= 2.0", "ys += 1.0", "ys.fill(0.0)",
        f"ys[:] = np.random.default_rng({k}).uniform(-5., 5., {n})", f"ys[:] = np.random.default_rng({k}).uniform(-5., 5., {n})",
        f"ys[:] = np.round(np.random.default_rng({k}).normal(0., 1., {n}), 1)",
        f"ys[{i}] = {rng.choice([0.0, -7.5, 1e6, rng.uniform(-3, 3)])!r}",
    ]
    if ws is not None:
        j = rng.randrange(n)
        opts += ["ws[:] = np.roll(ws, 1)", "ws[:] = ws[::-1].copy()", f"ws[:] = 0.0; ws[{j}] = 1.0",
                 f"ws[:] = np.random.default_rng({k}).dirichlet(np.ones({n}))",
                 f"ws[{j}] = 0.0; ws /= max(ws.sum(), 1e-300)", "ys.sort(); ws[:] = np.roll(ws, 1)"]
    stmt = rng.choice(opts)
    exec(stmt, {"np": np, "ys": ys, "ws": ws})
    return stmt


def apply_statement(stmt, ys, ws=None):
    """re-execute a statement recorded by `caller_mutation` (replays)"""
    exec(stmt, {"np": np, "ys": ys, "ws": ws})
    return stmt


class SharedArg:
    """An argument object that the caller keeps and passes to several calls (the documented pattern `ns = np.linspace(...);
    hi.quantile_tuning_curve(ns); pt.quantile_tuning_curve(ns); lo.quantile_tuning_curve(ns)`): the SAME object goes into every
    call, and after each call it must still hold bit for bit what the caller put there.  `container` in {"float64", "list",
    "tuple"} or an integer dtype name; `values` must be representable in it."""

    def __init__(self, values, container="float64"):
        self.container = container
        if container == "list":
            self.obj = [float(v) for v in values]
        elif container == "tuple":
            self.obj = tuple(float(v) for v in values)
        elif container == "float64":
            self.obj = np.array([float(v) for v in values], dtype=np.float64)
        else:
            self.obj = np.array([int(v) for v in values], dtype=container)
        self.pristine = self.snapshot()
        self.calls = []

    def snapshot(self):
        o = self.obj
        return (o.dtype.str, o.shape, o.tobytes()) if isinstance(o, np.ndarray) else repr(o)

    def intact(self):
        return self.snapshot() == self.pristine

    def current(self):
        o = self.obj
        return [float(v) for v in (o.ravel().tolist() if isinstance(o, np.ndarray) else o)]

    def changed_by(self, call):
        """record `call`; returns None if the object is (still) as the caller made it, else the description of the damage --
        reported once per object: the first call after which it differs is the one that wrote into it"""
        self.calls.append(call)
        if self.intact() or getattr(self, "_reported", False):
            return None
        self._reported = True
        return dict(container=self.container, calls_on_this_object=list(self.calls), now=self.current()[:12])
