REG = dict(
    certificates=True,
    uses_table=True,
    build_timeout=3000,
    timeout=dict(quick=900, thorough=3000),
    trusted_base=[
        "tools/translate_table.py: Python's json parser (the parser the library itself uses) and float.as_integer_ratio turn "
        "every literal of _approximations.json into the exact rational emitted to OpdaGen/Table.lean; tied on every run by "
        "exact evaluation of every piece through the driver against the file (corr_C19 step 2)",
        "tools/make_cert.py is NOT trusted: it only proposes subdivisions; the kernel evaluates certOK (decide +kernel, no axiom)",
        "regeneration and partial-moment clauses: compared (library generator; mpmath quadrature at 40 digits), not proved",
    ],
    assumptions=["x^k for half-integer k is Real.rpow; exponents in the table are non-negative half-integers"],
)
TEXT = dict(
    level="The JSON table is translated to exact rationals and one kernel-checked certificate per piece (53) is regenerated and "
          "re-proved against the file on every run: theorem table_accuracy — for every exponent, entry and EVERY real x in [0,1] the "
          "bracketing piece is within 1.02*max_error of x^k — plus table_structure (knots exactly 0..1 strictly increasing, one "
          "coefficient vector per piece, min_scale strictly decreasing to exactly 0) and select_total_unique (every scale >= 0 "
          "selects exactly one entry by the code's rule) and table_partial_moments (for every location and every scale > 0 the "
          "piecewise moment of an entry is within 1.02*max_error of the true partial moment, in exact arithmetic). Regeneration with "
          "the documented generator and the floating-point moment evaluation are decided by differential execution against the "
          "library and 40-digit quadrature.",
    note="Proved (universal in x, location and scale): accuracy, structure, selection, partial-moment bound. Compared only: regeneration tolerances (library code), "
         "partial moments vs quadrature on a stratified (loc, scale) set incl. range ends, code selects the entry the model selects. "
         "Untrusted: certificate proposer. Trusted: JSON->rational translator (checked by exact evaluation each run).",
    technique="Lean 4 proof over data translated from the repository on every run (interval Taylor-shift certificates checked by "
              "decide +kernel + soundness theorem) + differential correspondence",
)
