"""Exact distribution of the two-sided Kolmogorov-Smirnov statistic, P[D_n <= d], by the Durbin matrix algorithm in the
form of Marsaglia, Tsang & Wang (2003), in double precision with explicit exponent tracking (13+ significant digits for
n up to 10^5 in the range used here).  Independent of scipy's kstwo (which the implementation under test calls); the
harness cross-checks the two and against the exact rational Steck evaluation of the Lean driver for small n."""
import math

import numpy as np


def _mpow(H, n):
    """(V, e) with H^n = V * 10^e, V rescaled to avoid overflow"""
    if n == 1:
        return H.copy(), 0
    V, e = _mpow(H, n // 2)
    B = V @ V
    eB = 2 * e
    if n % 2:
        B = H @ B
    m = H.shape[0]
    if B[m // 2, m // 2] > 1e140:
        B = B * 1e-140
        eB += 140
    return B, eB


def ks_cdf(n, d):
    """P[D_n <= d] for the two-sided statistic of a continuous law"""
    n = int(n)
    if d <= 0.5 / n:
        return 0.0 if d < 0.5 / n else math.exp(math.lgamma(n + 1) - n * math.log(n) + n * math.log(2 * d * n - 1 + 1e-300)) if d > 0.5 / n else 0.0
    if d >= 1.0:
        return 1.0
    k = int(n * d) + 1
    m = 2 * k - 1
    h = k - n * d
    H = np.zeros((m, m))
    for i in range(m):
        for j in range(m):
            H[i, j] = 0.0 if i - j + 1 < 0 else 1.0
    for i in range(m):
        H[i, 0] -= h ** (i + 1)
        H[m - 1, i] -= h ** (m - i)
    H[m - 1, 0] += (2 * h - 1) ** m if 2 * h - 1 > 0 else 0.0
    for i in range(m):
        for j in range(m):
            if i - j + 1 > 0:
                H[i, j] /= math.factorial(i - j + 1) if i - j + 1 < 170 else float("inf")
    Q, eQ = _mpow(H, n)
    s = Q[k - 1, k - 1]
    for i in range(1, n + 1):
        s = s * i / n
        if s < 1e-140:
            s *= 1e140
            eQ -= 140
    return float(s * 10.0 ** eQ)
