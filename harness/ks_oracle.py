"""Exact distribution of the two-sided Kolmogorov-Smirnov statistic, P[D_n <= d], by the Durbin matrix algorithm in the
form of Marsaglia, Tsang & Wang (2003), in double precision with explicit exponent tracking (13+ significant digits for
n up to 10^5 in the range used here).  Independent of scipy's kstwo (which the implementation under test calls); the
harness cross-checks the two and against the exact rational Steck evaluation of the Lean driver for small n."""
import math

import numpy as np


def _mpow(H, n):
    """(V, e) with H^n = V * 10^e, V rescaled to avoid overflow"""
    if n == 1:
        return H.copy(), 0
    V, e = _mpow(H, n // 2)
    B = V @ V
    eB = 2 * e
    if n % 2:
        B = H @ B
    m = H.shape[0]
    if B[m // 2, m // 2] > 1e140:
        B = B * 1e-140
        eB += 140
    return B, eB


def ks_cdf(n, d):
    """P[D_n <= d] for the two-sided statistic of a continuous law"""
    n = int(n)
    if d <= 0.5 / n:
        return 0.0 if d < 0.5 / n else math.exp(math.lgamma(n + 1) - n * math.log(n) + n * math.log(2 * d * n - 1 + 1e-300)) if d > 0.5 / n else 0.0
    if d >= 1.0:
        return 1.0
    k = int(n * d) + 1
    m = 2 * k - 1
    h = k - n * d
    H = np.zeros((m, m))
    for i in range(m):
        for j in range(m):
            H[i, j] = 0.0 if i - j + 1 < 0 else 1.0
    for i in range(m):
        H[i, 0] -= h ** (i + 1)
        H[m - 1, i] -= h ** (m - i)
    H[m - 1, 0] += (2 * h - 1) ** m if 2 * h - 1 > 0 else 0.0
    for i in range(m):
        for j in range(m):
            if i - j + 1 > 0:
                H[i, j] /= math.factorial(i - j + 1) if i - j + 1 < 170 else float("inf")
    Q, eQ = _mpow(H, n)
    s = Q[k - 1, k - 1]
    for i in range(1, n + 1):
        s = s * i / n
        if s < 1e-140:
            s *= 1e140
            eQ -= 140
    return float(s * 10.0 ** eQ)


def ks_cdf_pelz_good(n, d, dps=40):
    """P[D_n <= d] for LARGE n by the asymptotic expansion of Pelz & Good (1976, JRSS B 38, 152-156; as restated by Simard &
    L'Ecuyer 2011, J. Stat. Softw. 39(11), eq. 5; K1 = K0'/6):

        P[sqrt(n) D_n <= z] = K0(z) + K1(z)/n^(1/2) + K2(z)/n + K3(z)/n^(3/2) + O(n^-2),

    written with the theta-function forms of the four terms (sums over half-integers h = k + 1/2 and integers k, weights
    exp(-pi^2 h^2 / (2 z^2))), evaluated with mpmath at `dps` digits so that the only error is the truncation of the expansion
    (measured against the matrix algorithm: about 0.05/n^2, i.e. 2e-9 at n = 5000, 1e-10 at n = 20000, 5e-12 at n = 10^5).  The matrix algorithm above costs O(n^2 d^2 log n) and is out of reach beyond n ~ 10^5;
    this evaluation is O(1).  It is independent of the implementation under test (which inverts scipy's kstwo) and of the limiting
    law alone (K0), and the harness validates it against the matrix algorithm at n = 5000 and 20000 before it is used to judge."""
    import mpmath as mp
    n = int(n)
    if d <= 0.5 / n:
        return 0.0
    if d >= 1.0:
        return 1.0
    with mp.workdps(dps):
        nn, z = mp.mpf(n), mp.sqrt(mp.mpf(n)) * mp.mpf(d)
        if n * d * d >= 40:          # 1 - K0 < 2 exp(-80)
            return 1.0
        if z < mp.mpf("0.02"):       # every term carries exp(-pi^2/(8 z^2)) < 1e-1300
            return 0.0
        pi2 = mp.pi ** 2
        K = int(6 * z) + 8           # the weights fall below exp(-pi^2 K^2/(2 z^2)) < 1e-70
        halves = [mp.mpf(k) + mp.mpf(1) / 2 for k in range(-K - 1, K + 1)]      # symmetric: -(K+1/2) .. K+1/2
        ints = [mp.mpf(k) for k in range(-K, K + 1)]
        wh = [(h, mp.exp(-pi2 * h * h / (2 * z * z))) for h in halves]
        wk = [(k, mp.exp(-pi2 * k * k / (2 * z * z))) for k in ints]
        c = mp.sqrt(mp.pi / 2)
        z2, z3, z4, z6, z7, z8, z10 = z ** 2, z ** 3, z ** 4, z ** 6, z ** 7, z ** 8, z ** 10
        k0 = c / z * mp.fsum(w for _h, w in wh)
        k1 = c / (6 * z4) * mp.fsum((pi2 * h * h - z2) * w for h, w in wh)
        k2 = (c / (72 * z7) * mp.fsum(((6 * z6 + 2 * z4) + pi2 * (2 * z4 - 5 * z2) * h ** 2 + pi2 ** 2 * (1 - 2 * z2) * h ** 4) * w
                                      for h, w in wh)
              - c / (36 * z3) * mp.fsum(pi2 * k * k * w for k, w in wk))
        k3 = (c / (6480 * z10) * mp.fsum((pi2 ** 3 * h ** 6 * (5 - 30 * z2) + pi2 ** 2 * h ** 4 * (-60 * z2 + 212 * z4)
                                          + pi2 * h ** 2 * (135 * z4 - 96 * z6) - (30 * z6 + 90 * z8)) * w for h, w in wh)
              + c / (216 * z6) * mp.fsum((-pi2 ** 2 * k ** 4 + 3 * pi2 * k * k * z2) * w for k, w in wk))
        p = k0 + k1 / mp.sqrt(nn) + k2 / nn + k3 / (nn * mp.sqrt(nn))
        return float(min(mp.mpf(1), max(mp.mpf(0), p)))
