REG = dict(
    trusted_base=[
        "IEEE-754 rounding inside numpy is not modelled: the theorems are exact identities over R (resp. over any ordered "
        "field); the float gap is what the property's 1e-12 / 1e-6 / 5e-6 / 2e-4 are for and is measured on every run",
        "noisy class: the theorems quantify over an arbitrary record F of transcendental functions with Phi(-x)=1-Phi(x), "
        "phi(-x)=phi(x) (proved for the real Gaussian), sqrt(k^2 v)=k sqrt v (proved for Real.sqrt); PhiInv(1-q)=-PhiInv(q) "
        "of the black box scipy ndtri (normal regime of ppf only) is a hypothesis",
        "ppf reflection is proved under `NoTie` (no bisection midpoint has cdf(mid) = q exactly); at exact float ties the "
        "code is NOT mirror-symmetric (known finding C09-noisy-ppf-reflection-exact-bisection-tie); decisions within 1e-13 of a tie are rounding and are skipped",
        "sample: the theorems are about the model's functions of (u, z); that the code's sample IS that function of the primitives "
        "drawn from the seeded generator is compared bitwise in C13, and same-seed pairs D / D0 are compared here through D0.cdf",
        "the integrated average curve is related at every refinement level i; the stopping index is decided in floating "
        "point by the code",
        "oracle used to attribute a deviating integrated curve: adaptive Gauss-Legendre quadrature of the class's own cdf; the "
        "Lean model of the loop (OpdaModel/QuadTrap.lean with the noisy cdf model) says whether a deviation is the algorithm's own "
        "(the pre-fix defect F4, repaired in /repo by 867c66b; it is no longer a listed finding, so its return would be reported)",
    ],
    assumptions=["a < b with b-a in [1e-6,1e6], |a|+|b| <= 1e3 (b-a); c in 1..10; s=o/(b-a) in {0} u [1e-9,1e3]",
                 "s within 1e-9 relative of an internal switch point (1e-6, 10, 5e-2, every min_scale of the shipped table, "
                 "1e-2, 3e-3, 6e-4, 3e-4) is excluded, as the property states (margin reported by the model)",
                 "location-scale pairs are evaluated at y = fl(a+(b-a)z) and at the exactly standardised z with its two float "
                 "neighbours (the rounding of the pairing itself is not charged to the code)",
                 "integrated curves: n <= 1000; calls that do not return within 60 s / 2 GiB are C08's subject and skipped here"],
    timeout=dict(quick=900, thorough=6000),
)
TEXT = dict(
    level="Universal Lean theorems. Noiseless class (model Opda.Quad at R): cdf/pdf/ppf/both tuning curves under the reflection "
          "(a,b,convex)->(-b,-a,not convex) with q->1-q, minimize->not minimize (and None<->None), and under y=a+(b-a)z "
          "(12 theorems). Noisy class (model Opda.Noisy over ANY ordered field and ANY transcendental record F, i.e. any "
          "partial-moment machinery): loc/scale identical and point negated under reflection, all three invariant under the "
          "affine map; cdf, pdf in every regime; ppf (30-step bisection: mirror image unless an exact tie, affine image always) "
          "and the quantile curve (11 theorems). sample (model Opda.Sample of both sample methods as functions of the generator's "
          "primitives, at R, every real u, z): SAME SEED location-scale — D.sample(u) = a+(b-a) D0.sample(u), and "
          "D.sample(u,z) = a+(b-a) D0.sample(u,z) with o = s(b-a); reflection — the mirrored instance fed with the complementary "
          "uniform 1-u and the negated normal -z returns minus the draw; with the same uniform it does NOT (counterexample theorem), so "
          "for sample the reflection is an identity of laws, not of equal-seed draws (6 theorems). Integrated average curve (loop model Opda.TrapLoop = composite trapezoid sums, "
          "every refinement level, the REPAIRED integrand of fix 867c66b: E = lo + int(1-G)): mirror image (navg_reflect) and "
          "location-scale equivariant (navg_affine) at every refinement level with no side condition. "
          "Correspondence: paired evaluations of the real code on mirrored / rescaled instances at exactly the property's "
          "tolerances, every regime and both sides of every switch point.",
    note="F4 (integrated noisy average curve not location-equivariant: premature convergence when 0 lay inside the integration range) was found "
         "here and is repaired in /repo (867c66b). Finding on the unchanged tree: C09-noisy-ppf-reflection-exact-bisection-tie (ppf/quantile curve: at an exact float tie "
         "cdf(mid)==q the `<` moves `hi` in both mirrored instances; results differ by 2^-30 of the bracket, > 1e-12).",
)
