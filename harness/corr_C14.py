"""C14 correspondence: random call histories on the real code (in a subprocess) vs the Lean state machine, and
vs a fresh subprocess for the observed (last) call.

For every history (<= 12 calls mixing set_seed / default_rng / the three sample methods / confidence_bands with
dkw, ks, ld_equal_tailed, ld_highest_density, n_jobs in {1,2,16,None} / fit / overwriting returned arrays):

 * per call, against the model (`rng.run code …`): which generator object was resolved, that *no other* generator
   and not numpy's legacy state changed, that the resolved generator advanced by exactly the predicted number of
   64-bit steps where the model knows it (uniform draws, ld simulation = 100000*n, cache hit = 0), which object
   `opda.random.DEFAULT_GENERATOR` is bound to, and that calls with equal model terms returned equal bytes;
   a call that deviates from the repository-policy model but matches the specification-policy model
   (`rng.run spec …`, ld table never memoised) is counted, not reported: it meets the property;
 * for the observed call, against a fresh process whose generator is in the same state (or, when the call directly
   follows `set_seed(z)`, a fresh process doing `set_seed(z)`): result bytes and generator state afterwards must be
   identical.  A difference is a violation of C14 with the history as replay.  It is keyed
   `F1-ld-cache-keyed-on-generator-identity` only if the explicit predicate on the history holds (an earlier ld call
   with the same (n, confidence, kind, generator object, n_jobs)).
"""
import concurrent.futures
import hashlib
import json
import os
import subprocess
import sys

F1_KEY = "F1-ld-cache-keyed-on-generator-identity"
HERE = os.path.abspath(__file__)

# ----------------------------------------------------------------------------- catalogues (ids go to the model)
SEEDS = [0, 1, 2, 7]
CONFS = [0.5, 0.9, 0.25]
SIZES = [None, 3, (2, 2), 0, 1]
DISTS = [  # (cls letter, constructor args)
    ("q", dict(a=0.0, b=1.0, c=3, convex=True)),
    ("q", dict(a=-1.0, b=2.0, c=1, convex=False)),
    ("n", dict(a=0.0, b=1.0, c=2, o=0.1, convex=True)),
    ("n", dict(a=-1.0, b=1.0, c=5, o=0.0, convex=False)),
    ("w", dict(ys=[1.0, 2.0, 3.0], ws=[0.2, 0.3, 0.5])),
    ("w", dict(ys=[0.5, 0.5, -1.0, 4.0], ws=[0.25, 0.0, 0.5, 0.25])),
    ("u", dict(ys=[1.0, 2.0, 2.0, 5.0], ws=None)),
    ("u", dict(ys=[-3.0, 0.25, 7.0], ws=None)),
]
YS = [  # (ys, a, b)
    ([0.1, 0.7], None, None), ([3.0, 1.0], 0.0, 4.0),
    ([0.1, 0.5, 0.3], None, None), ([2.0, -1.0, 0.5], -2.0, None),
    ([0.1, 0.5, 0.3, 0.9], None, None), ([4.0, 1.0, 3.0, 2.0], 0.0, 5.0),
    ([0.4], None, None),
    ([0.2, 0.4, 0.6], None, None),          # already sorted: `unsorting` is the identity
    # n >= 9 (the ld simulation costs 100000 * n draws, so these are rare in the random histories: P_BIG_SAMPLE): sample sizes at which
    # the per-order-statistic computations of the ld methods stop being interchangeable with one batched computation (interior
    # order statistics with mode (i-1)/(n-1) > 0.859 exist from n = 9 on), so that "regardless of n_jobs" is a claim with content
    ([0.55, 0.1, 0.9, 0.3, 0.7, 0.2, 0.8, 0.4, 0.6], None, None),
    ([5.0, 1.0, 11.0, 3.0, 7.0, 2.0, 12.0, 4.0, 6.0, 9.0, 8.0, 10.0], 0.0, 13.0),
]
N_YS_SMALL = 8          # the random histories draw from the first N_YS_SMALL samples, and with probability P_BIG_SAMPLE from the rest
P_BIG_SAMPLE = 0.08
METHODS = {"dkw": "dkw", "ks": "ks", "et": "ld_equal_tailed", "hd": "ld_highest_density"}
FITS = [  # (class, ys, constraints); the last two use the unconstrained optimiser (thorough tier only)
    ("q", [0.1, 0.5, 0.7, 0.9], dict(c=2, convex=True)),
    ("q", [0.2, 0.4, 0.45, 0.8, 0.95], dict(a=0.0, c=3, convex=False)),
    ("n", [0.1, 0.5, 0.7, 0.9], dict(a=0.0, c=2, convex=True)),
    ("q", [0.1, 0.5, 0.7, 0.9], dict(a=0.0, b=1.0, c=2, convex=True)),     # nothing to optimise: no draw at all
    ("q", [0.1, 0.5, 0.7, 0.9], None),
    ("n", [0.1, 0.5, 0.7, 0.9], dict(convex=True)),
    # fewer than five initial candidates (a, b[, o] fixed, c restricted to a few values): the top-up path of the initial population
    ("q", [0.1, 0.5, 0.7, 0.9], dict(a=0.0, b=1.0, c=(1, 3))),
    ("n", [0.1, 0.5, 0.7, 0.9], dict(a=0.0, b=1.0, o=0.05, c=(2, 3), convex=False)),
]


def count_of(size):
    if size is None:
        return 1
    if isinstance(size, tuple):
        k = 1
        for s in size:
            k *= s
        return k
    return size


# ----------------------------------------------------------------------------- worker (runs in a subprocess)

def _digest(parts):
    h = hashlib.blake2b(digest_size=16)
    for p in parts:
        h.update(p)
        h.update(b"|")
    return h.hexdigest()


def _arr_bytes(x):
    import numpy as np
    a = np.asarray(x)
    return [str(a.shape).encode(), str(a.dtype).encode(), np.ascontiguousarray(a).tobytes(),
            b"scalar" if np.isscalar(x) else b"array"]


def worker():
    spec = json.load(sys.stdin)
    sys.path.insert(0, os.path.join(spec["repo"], "src"))
    import warnings
    import numpy as np
    import opda.random
    from opda.nonparametric import EmpiricalDistribution as ED
    from opda.parametric import NoisyQuadraticDistribution as NQ
    from opda.parametric import QuadraticDistribution as QD
    if not os.path.abspath(opda.random.__file__).startswith(os.path.abspath(os.path.join(spec["repo"], "src"))):
        raise RuntimeError(f"opda imported from {opda.random.__file__}, expected under {spec['repo']}/src")
    warnings.simplefilter("ignore")
    objs = [opda.random.DEFAULT_GENERATOR]
    returned = []          # most recent first

    def gen_of(ref):
        return None if ref is None else objs[ref]

    def snapshot():
        leg = np.random.get_state()
        legd = _digest([str(leg[0]).encode(), leg[1].tobytes(), str(leg[2:]).encode()])
        gidx = -1
        for i, o in enumerate(objs):
            if o is opda.random.DEFAULT_GENERATOR:
                gidx = i
        return dict(states=[None if o is None else o.bit_generator.state for o in objs], gidx=gidx, legacy=legd)

    out = [dict(snapshot(), result=None, error=None)]
    for op in spec["ops"]:
        res, err = None, None
        try:
            k = op["op"]
            if k == "S":
                opda.random.set_seed(op["seed"])
                objs.append(opda.random.DEFAULT_GENERATOR)
            elif k == "N":
                objs.append(np.random.default_rng(op["seed"]))
            elif k == "NS":      # fresh process only: a generator put into a given state
                g = np.random.default_rng()
                g.bit_generator.state = op["state"]
                objs.append(g)
            elif k == "G":
                opda.random.set_seed(objs[op["ref"]])
            elif k == "D":       # the caller lets go of a generator (the harness held the only reference)
                import gc
                if objs[op["ref"]] is not opda.random.DEFAULT_GENERATOR:
                    objs[op["ref"]] = None
                gc.collect()
            elif k == "P":
                cls, kw = DISTS[op["dist"]]
                d = {"q": QD, "n": NQ}[cls](**kw) if cls in "qn" else ED(kw["ys"], ws=kw["ws"])
                size = op["size"]
                size = tuple(size) if isinstance(size, list) else size
                x = d.sample(size, generator=gen_of(op["gen"]))
                res = _digest(_arr_bytes(x))
                returned.insert(0, ("array", x))
            elif k == "B":
                ys, a, b = YS[op["ys"]]
                kw = {}
                if a is not None:
                    kw["a"] = a
                if b is not None:
                    kw["b"] = b
                lo, mid, hi = ED.confidence_bands(ys, CONFS[op["conf"]], generator=gen_of(op["gen"]),
                                                  method=METHODS[op["method"]], n_jobs=op["n_jobs"], **kw)
                parts = []
                for d in (lo, mid, hi):
                    parts += _arr_bytes(d.ys) + (_arr_bytes(d.ws) if d.ws is not None else [b"None"]) \
                        + _arr_bytes(d.a) + _arr_bytes(d.b)
                res = _digest(parts)
                returned.insert(0, ("bands", (lo, mid, hi)))
            elif k == "F":
                cls, ys, cons = FITS[op["fit"]]
                d = {"q": QD, "n": NQ}[cls].fit(ys, constraints=cons, generator=gen_of(op["gen"]))
                vals = [d.a, d.b, d.c, d.convex] + ([d.o] if cls == "n" else [])
                res = _digest([repr(float(v).hex() if not isinstance(v, bool) else v).encode() for v in vals])
                returned.insert(0, ("dist", d))
            elif k == "M":
                if op["i"] < len(returned):
                    kind, obj = returned[op["i"]]
                    v = float(op["v"])
                    if kind == "array" and isinstance(obj, np.ndarray):
                        obj[...] = v
                    elif kind == "bands":
                        for d in obj:
                            d.ys[...] = v
                            if d.ws is not None:
                                d.ws[...] = v
        except Exception as e:  # noqa: BLE001
            err = type(e).__name__ + ": " + str(e)[:200]
        out.append(dict(snapshot(), result=res, error=err))
    json.dump(out, sys.stdout)


# ----------------------------------------------------------------------------- parent side

def run_worker(repo, ops):
    env = dict(os.environ, PYTHONDONTWRITEBYTECODE="1")
    p = subprocess.run([sys.executable, HERE, "--worker"], input=json.dumps(dict(repo=repo, ops=ops)).encode(),
                       stdout=subprocess.PIPE, stderr=subprocess.PIPE, env=env, timeout=1200)
    if p.returncode != 0:
        raise RuntimeError("worker failed: " + p.stderr.decode()[-1500:])
    return json.loads(p.stdout.decode())


def tok(x):
    return "-" if x is None else str(x)


def model_tokens(op):
    k = op["op"]
    if k == "S":
        return f"S {op['seed']}"
    if k == "N":
        return f"N {op['seed']}"
    if k == "G":
        return f"G {op['ref']}"
    if k == "P":
        cls = DISTS[op["dist"]][0]
        size = op["size"]
        size = tuple(size) if isinstance(size, list) else size
        return f"P {cls} {op['dist'] * 10 + SIZES.index(size)} {count_of(size)} {tok(op['gen'])}"
    if k == "B":
        return f"B {op['method']} {len(YS[op['ys']][0])} {op['conf']} {op['ys']} {tok(op['gen'])} {tok(op['n_jobs'])}"
    if k == "F":
        return f"F {op['fit']} {tok(op['gen'])}"
    if k == "M":
        return f"M {op['i']} {op['v']}"
    if k == "D":
        # dropping a reference is not an operation of the model (a generator that is never named again has no effect on any
        # later call): rendered as an overwrite of a returned object that does not exist, which the model treats as a no-op
        return "M 9999 0"
    raise ValueError(k)


def python_line(op, nxt="<next>"):
    """one line of a runnable reproduction (`nxt` = number of the generator object this line creates)"""
    k = op["op"]
    g = lambda r: "None" if r is None else ("opda.random.DEFAULT_GENERATOR" if r == "global" else f"g{r}")  # noqa: E731
    if k == "S":
        return f"opda.random.set_seed({op['seed']}); g{nxt} = opda.random.DEFAULT_GENERATOR"
    if k == "N":
        return f"g{nxt} = np.random.default_rng({op['seed']})"
    if k == "NS":
        return f"g{nxt} = np.random.default_rng(); g{nxt}.bit_generator.state = <state of the observed call's generator>"
    if k == "G":
        return f"opda.random.set_seed(g{op['ref']})"
    if k == "D":
        return f"del g{op['ref']}; import gc; gc.collect()    # the last reference to that generator goes away"
    if k == "P":
        cls, kw = DISTS[op["dist"]]
        name = {"q": "QuadraticDistribution", "n": "NoisyQuadraticDistribution"}.get(cls, "EmpiricalDistribution")
        args = ", ".join(f"{a}={v!r}" for a, v in kw.items())
        size = op["size"]
        size = tuple(size) if isinstance(size, list) else size
        return f"{name}({args}).sample({size!r}, generator={g(op['gen'])})"
    if k == "B":
        ys, a, b = YS[op["ys"]]
        ab = ("" if a is None else f"a={a}, ") + ("" if b is None else f"b={b}, ")
        return (f"EmpiricalDistribution.confidence_bands({ys}, {CONFS[op['conf']]}, {ab}generator={g(op['gen'])}, "
                f"method={METHODS[op['method']]!r}, n_jobs={op['n_jobs']})")
    if k == "F":
        cls, ys, cons = FITS[op["fit"]]
        name = {"q": "QuadraticDistribution", "n": "NoisyQuadraticDistribution"}[cls]
        return f"{name}.fit({ys}, constraints={cons}, generator={g(op['gen'])})"
    return f"<overwrite .ys/.ws (or the sample array) of the {op['i']}-th most recently returned object with {op['v']}>"


def python_lines(ops):
    out, nxt = ["import numpy as np, opda.random; from opda.nonparametric import EmpiricalDistribution; "
                "from opda.parametric import QuadraticDistribution, NoisyQuadraticDistribution; "
                "g0 = opda.random.DEFAULT_GENERATOR"], 1
    for o in ops:
        out.append(python_line(o, nxt))
        if o["op"] in ("S", "N", "NS"):
            nxt += 1
    return out


class Tracker:
    """the harness's own bookkeeping of object references (to generate valid histories and to evaluate the F1
    predicate on a history independently of the model)"""

    def __init__(self, cpu):
        self.cpu, self.nrefs, self.glob, self.user = cpu, 1, 0, []
        self.ld_keys = []
        self.nret = 0

    def ld_key(self, op):
        if op["op"] == "B" and op["method"] in ("et", "hd"):
            r = op["gen"] if op["gen"] is not None else self.glob
            j = op["n_jobs"] if op["n_jobs"] is not None else self.cpu
            return (len(YS[op["ys"]][0]), op["conf"], op["method"], r, j)
        return None

    def repeats(self, op):
        k = self.ld_key(op)
        return k is not None and k in self.ld_keys

    def used(self, op):
        if op["op"] in ("P", "B", "F"):
            return op["gen"] if op["gen"] is not None else self.glob
        return None

    def apply(self, op):
        k = op["op"]
        if k == "S":
            self.glob = self.nrefs
            self.nrefs += 1
        elif k == "N":
            self.user.append(self.nrefs)
            self.nrefs += 1
        elif k == "G":
            self.glob = op["ref"]
        elif k == "D":
            self.user = [r for r in self.user if r != op["ref"]]
        elif k in ("P", "B", "F"):
            key = self.ld_key(op)
            if key is not None:
                self.ld_keys.append(key)
            self.nret += 1


def gen_call(rng, tr, tier, want=None, brng=None):
    """a randomised entry-point call on a valid generator (`brng`: own generator of the sample-size axis, so that the draws of
    `rng` are the ones they were)"""
    kind = want or rng.choice(["P", "P", "P", "B", "B", "B", "B", "F"])
    gen = None
    if tr.user and rng.random() < 0.65:
        gen = rng.choice(tr.user)
    elif rng.random() < 0.08:
        gen = tr.glob                      # the global object passed explicitly
    if kind == "P":
        return dict(op="P", dist=rng.randrange(len(DISTS)), size=rng.choice(SIZES), gen=gen)
    if kind == "B":
        method = rng.choice(["dkw", "ks", "et", "et", "hd"])
        ysid = rng.randrange(N_YS_SMALL)
        if method == "hd" and len(YS[ysid][0]) < 2:
            ysid = 0
        if brng is not None and brng.random() < P_BIG_SAMPLE:
            ysid = brng.randrange(N_YS_SMALL, len(YS))
        return dict(op="B", method=method, ys=ysid, conf=rng.randrange(len(CONFS)), gen=gen,
                    n_jobs=rng.choice([1, 1, 2, 16, None]))
    nfit = len(FITS) if tier == "thorough" else 4
    return dict(op="F", fit=rng.randrange(nfit), gen=gen)


def gen_history(rng, cpu, tier, brng=None):
    tr = Tracker(cpu)
    length = rng.randint(2, 12)
    ops = []
    for i in range(length - 1):
        r = rng.random()
        if r < 0.10:
            op = dict(op="S", seed=rng.choice(SEEDS))
        elif r < 0.27 or (i == 0 and r < 0.6):
            op = dict(op="N", seed=rng.choice(SEEDS))
        elif r < 0.31 and tr.user:
            op = dict(op="G", ref=rng.choice(tr.user))
        elif r < 0.40 and tr.nret:
            op = dict(op="M", i=rng.randrange(min(tr.nret, 3)), v=rng.choice([0, 7, 3]))
        else:
            op = gen_call(rng, tr, tier, brng=brng)
        tr.apply(op)
        ops.append(op)
    # the observed call
    ld_prev = [o for o in ops if o["op"] == "B" and o["method"] in ("et", "hd")]
    r = rng.random()
    if ld_prev and r < 0.35:
        last = dict(rng.choice(ld_prev))             # same arguments again (maybe a different key by now: set_seed)
        if rng.random() < 0.3:
            last["ys"] = next(i for i, y in enumerate(YS) if len(y[0]) == len(YS[last["ys"]][0]))
    elif r < 0.5:
        last = gen_call(rng, tr, tier, want="B", brng=brng)
    else:
        last = gen_call(rng, tr, tier, brng=brng)
    ops.append(last)
    return ops


def structured_histories(cpu):
    B = lambda m, ys, conf, gen, nj: dict(op="B", method=m, ys=ys, conf=conf, gen=gen, n_jobs=nj)  # noqa: E731
    P = lambda d, size, gen: dict(op="P", dist=d, size=size, gen=gen)  # noqa: E731
    N = lambda s: dict(op="N", seed=s)  # noqa: E731
    S = lambda s: dict(op="S", seed=s)  # noqa: E731
    M = lambda i, v: dict(op="M", i=i, v=v)  # noqa: E731
    D = lambda r: dict(op="D", ref=r)  # noqa: E731
    return [
        ("F1 explicit generator", [N(0), B("et", 2, 0, 1, 1), B("et", 2, 0, 1, 1)]),
        ("F1 global generator", [S(0), B("et", 2, 0, None, None), B("et", 2, 0, None, cpu)]),
        ("set_seed rebinds: same seed twice", [S(0), B("hd", 2, 0, None, 1), S(0), B("hd", 2, 0, None, 1)]),
        ("set_seed rebinds: other seed", [S(0), B("et", 4, 1, None, 2), S(1), B("et", 4, 1, None, 2)]),
        ("n_jobs enters only the key", [N(0), B("et", 2, 0, 1, 1), N(0), B("et", 2, 0, 2, 2), N(0), B("et", 2, 0, 3, 16),
                                        N(0), B("et", 2, 0, 4, None)]),
        ("same key, other n_jobs on the same object", [N(0), B("hd", 4, 0, 1, 1), B("hd", 4, 0, 1, 2)]),
        ("overwrite returned bands, dkw hit", [N(0), B("dkw", 2, 0, 1, 1), M(0, 7), B("dkw", 2, 0, 1, 1), M(0, 3),
                                              B("dkw", 3, 0, None, 2)]),
        ("overwrite returned bands, ks hit", [B("ks", 4, 1, None, 1), M(0, 0), B("ks", 5, 1, None, 1)]),
        ("overwrite returned bands, ld miss on an equal generator", [N(0), B("et", 2, 0, 1, 1), M(0, 7), N(0),
                                                                    B("et", 2, 0, 2, 1)]),
        ("overwrite returned bands, sorted sample", [N(0), B("dkw", 7, 0, 1, 1), M(0, 7), B("dkw", 7, 0, 1, 1),
                                                     B("ks", 7, 0, 1, 1), M(0, 3), B("ks", 7, 0, None, 1),
                                                     B("et", 7, 0, 1, 1), M(0, 0), N(0), B("et", 7, 0, 2, 1)]),
        ("overwrite returned sample", [N(1), P(0, 3, 1), M(0, 7), N(1), P(0, 3, 2)]),
        ("set_seed(generator) binds that object", [N(2), dict(op="G", ref=1), P(0, 3, None), P(2, 3, 1), S(2), P(0, 3, None)]),
        ("same seed, explicit and global", [N(7), S(7), P(4, (2, 2), 1), P(4, (2, 2), None)]),
        ("set_seed(generator), then the default call meets the entry keyed on that object",
         [N(0), B("et", 2, 0, 1, None), dict(op="G", ref=1), B("et", 2, 0, None, cpu)]),
        ("size 0 draws nothing", [N(1), P(0, 0, 1), P(2, 0, 1), P(4, 0, 1), P(6, 0, 1), P(0, 3, 1)]),
        ("fit on explicit generator", [N(1), dict(op="F", fit=0, gen=1), S(3), dict(op="F", fit=0, gen=None), N(1),
                                       dict(op="F", fit=0, gen=3)]),
        ("fit with nothing to optimise draws nothing", [N(1), dict(op="F", fit=3, gen=1), P(0, 3, 1)]),
        ("dkw/ks ignore the generator", [N(0), B("dkw", 0, 0, 1, 1), S(5), B("dkw", 0, 0, None, 16), B("ks", 0, 0, 1, 2)]),
        # generators in EQUAL STATES but different objects: whatever was computed for the first must not leak into the second
        ("equal generator state, other ld kind first (et, hd)", [N(0), B("et", 2, 0, 1, 1), N(0), B("hd", 2, 0, 2, 1)]),
        ("equal generator state, other ld kind first (hd, et)", [N(1), B("hd", 4, 0, 1, 1), N(1), B("et", 4, 0, 2, 1)]),
        ("equal generator state, other confidence first", [N(0), B("et", 2, 1, 1, 1), N(0), B("et", 2, 0, 2, 1)]),
        ("equal generator state, other sample of the same size first", [N(0), B("hd", 2, 0, 1, 1), N(0), B("hd", 3, 0, 2, 1)]),
        ("equal generator state via set_seed, other ld kind first", [S(0), B("et", 2, 0, None, 1), S(0), B("hd", 2, 0, None, 1)]),
        ("equal generator state, other distribution sampled first", [N(1), P(0, 3, 1), N(1), P(2, 3, 2), N(1), P(4, 3, 3)]),
        ("equal generator state, other fit first", [N(1), dict(op="F", fit=0, gen=1), N(1), dict(op="F", fit=1, gen=2)]),
        ("fit with fewer than five initial candidates, explicit generator", [N(2), dict(op="F", fit=6, gen=1), N(2), dict(op="F", fit=6, gen=2)]),
        ("fit with fewer than five initial candidates, global generator", [S(1), dict(op="F", fit=6, gen=None), S(1), dict(op="F", fit=6, gen=None)]),
        ("noisy fit with fewer than five initial candidates", [N(0), dict(op="F", fit=7, gen=1), P(2, 3, 1), N(0), dict(op="F", fit=7, gen=2)]),
        # a generator that is FREED: a later generator may be allocated at its address; nothing computed for the dead object may
        # be served to the new one (a table keyed on id(generator), or on a weak reference that is not invalidated)
        ("generator freed, new generator with another seed, same ld key",
         [N(0), B("et", 2, 0, 1, 1), D(1), N(1), B("et", 2, 0, 2, 1), D(2), N(2), B("et", 2, 0, 3, 1), D(3), N(7), B("et", 2, 0, 4, 1)]),
        ("generator freed, new generator with another seed, same ld key (hd, default n_jobs)",
         [N(1), B("hd", 4, 1, 1, None), D(1), N(2), B("hd", 4, 1, 2, None), D(2), N(0), B("hd", 4, 1, 3, None)]),
        # n_jobs at sample sizes n >= 9: generators in the same state, the same arguments, n_jobs = 1 (in-process), 2 and 16 (pool) and
        # the default; the model says n_jobs enters only the cache key, so all results must be the same bytes (and the observed call is
        # also compared with a fresh process)
        ("n_jobs 1 vs 2 vs 16, ld_highest_density, n = 9, seed 0, confidence 0.9",
         [N(0), B("hd", 8, 1, 1, 1), N(0), B("hd", 8, 1, 2, 2), N(0), B("hd", 8, 1, 3, 16)]),
        ("n_jobs 2 vs 1 vs default, ld_highest_density, n = 9, seed 1, confidence 0.5",
         [N(1), B("hd", 8, 0, 1, 2), N(1), B("hd", 8, 0, 2, 1), N(1), B("hd", 8, 0, 3, None)]),
        ("n_jobs 1 vs 2 vs 16, ld_highest_density, n = 12, seed 1, confidence 0.9",
         [N(1), B("hd", 9, 1, 1, 1), N(1), B("hd", 9, 1, 2, 2), N(1), B("hd", 9, 1, 3, 16)]),
        ("n_jobs 16 vs 1, ld_highest_density, n = 12, global generator via set_seed(2), confidence 0.25",
         [S(2), B("hd", 9, 2, None, 16), S(2), B("hd", 9, 2, None, 1)]),
        ("n_jobs 1 vs 2 vs 16, ld_equal_tailed, n = 9, seed 7, confidence 0.5",
         [N(7), B("et", 8, 0, 1, 1), N(7), B("et", 8, 0, 2, 2), N(7), B("et", 8, 0, 3, 16)]),
        ("generator freed between samples and fits",
         [N(1), P(0, 3, 1), dict(op="F", fit=0, gen=1), D(1), N(2), P(0, 3, 2), D(2), N(7), dict(op="F", fit=0, gen=3)]),
    ]


def advance_state(state, k):
    import numpy as np
    bg = getattr(np.random, state["bit_generator"])()
    bg.state = state
    bg.advance(k)
    return bg.state["state"]


def run(seed, tier, replay=None):
    import common as C
    rep = C.Report("C14", seed, tier)
    pending = []          # violations, flushed at the end: unkeyed first, then at most 3 per finding key

    def violate(**kw):
        pending.append(kw)

    rng = C.rng_for("C14", seed)
    drv = C.Driver()
    cpu = os.cpu_count() or 1
    repo = C.REPO

    if replay is not None:
        v = replay.get("violation", replay)
        histories = [("replay", v["input"]["history"])]
    else:
        histories = structured_histories(cpu)
        n_rand = 40 if tier == "quick" else 400
        brng = C.rng_for("C14.big_samples", seed)
        for i in range(n_rand):
            histories.append((f"random {i}", gen_history(rng, cpu, tier, brng)))

    # ---- the model's predictions (both policies)
    reqs = []
    for _name, ops in histories:
        body = f"{cpu} 999983 {len(ops)} " + " ".join(model_tokens(o) for o in ops)
        reqs.append(("rng.run", "code " + body))
        reqs.append(("rng.run", "spec " + body))
    replies = drv.run(reqs)

    # ---- execute: polluted process and fresh process, in parallel subprocesses
    def fresh_ops(ops, states_before):
        """ops of the fresh process for the observed (last) call"""
        tr = Tracker(cpu)
        for o in ops[:-1]:
            tr.apply(o)
        last = dict(ops[-1])
        used = tr.used(last)
        if used is None:
            return None, None
        if last["gen"] is None and len(ops) >= 2 and ops[-2]["op"] == "S":
            return [ops[-2], last], "reseed"
        inject = dict(op="NS", state=states_before[used])
        if last["gen"] is None:
            return [inject, dict(op="G", ref=1), last], "inject-global"
        last["gen"] = 1
        return [inject, last], "inject-explicit"

    def job(item):
        name, ops = item
        trace = run_worker(repo, ops)
        fops, mode = fresh_ops(ops, trace[len(ops) - 1]["states"])
        ftrace = run_worker(repo, fops) if fops else None
        return trace, fops, mode, ftrace

    with concurrent.futures.ThreadPoolExecutor(max_workers=6) as ex:
        results = list(ex.map(job, histories))

    def parse_pred(tokline):
        value, used, hit, steps, glob, repeat, fresh = tokline.split("|")
        return dict(value=value, used=None if used == "-" else int(used), hit=hit,
                    steps=None if steps == "?" else int(steps), glob=int(glob), repeat=repeat == "1", fresh=fresh == "1")

    def against_model(ops, trace, preds):
        """compare a whole trace with one policy's predictions: list of (kind, index, message, extra)"""
        found, by_value = [], {}
        for i, op in enumerate(ops):
            before, after, p = trace[i], trace[i + 1], preds[i]
            if after["error"] or op["op"] == "D":
                continue
            if after["gidx"] != p["glob"]:
                found.append(("disagree", i, f"DEFAULT_GENERATOR is object {after['gidx']}, model says {p['glob']}", {}))
            nb = len(before["states"])
            changed = [j for j in range(nb) if after["states"][j] != before["states"][j]]
            call = op["op"] in ("P", "B", "F")
            allowed = {p["used"]} if call and p["used"] is not None else set()
            for j in changed:
                if j not in allowed:
                    found.append(("disagree", i, f"generator object {j} changed state but the call resolved object {p['used']}", {}))
            if call and p["used"] is not None and p["steps"] is not None and p["used"] < nb:
                exp = advance_state(before["states"][p["used"]], p["steps"])
                if after["states"][p["used"]]["state"] != exp:
                    found.append(("disagree", i, f"generator object {p['used']} did not advance by exactly {p['steps']} steps "
                                  f"(cache {'hit' if p['hit'] == 'h' else 'miss' if p['hit'] == 'm' else 'n/a'} predicted)", {}))
            if call:
                v = p["value"]
                if v in by_value and by_value[v][1] != after["result"]:
                    j = by_value[v][0]
                    found.append(("violate", i, f"calls {j} and {i} have generators in the same state and the same arguments "
                                  f"but returned different results", dict(other=j, expected=by_value[v][1], observed=after["result"])))
                by_value.setdefault(v, (i, after["result"]))
        return found

    for hi, ((name, ops), (trace, fops, mode, ftrace)) in enumerate(zip(histories, results)):
        code_r, spec_r = replies[2 * hi], replies[2 * hi + 1]
        hist_in = dict(history=ops, python=python_lines(ops), name=name, cpu_count=cpu)
        if code_r is None or spec_r is None:
            rep.disagree(op="rng.run", note="model rejected a valid history", input=hist_in)
            continue
        rep.count("histories")
        rep.count("length=%d" % len(ops))
        pred_code = [parse_pred(x) for x in code_r]
        pred_spec = [parse_pred(x) for x in spec_r]

        # ---- policy-independent observations, call by call
        tr = Tracker(cpu)
        any_repeat = False
        for i, op in enumerate(ops):
            before, after = trace[i], trace[i + 1]
            rep.count("op=" + op["op"] + (":" + op["method"] if op["op"] == "B" else ""))
            if op["op"] == "B":
                rep.count("n_jobs=" + tok(op["n_jobs"]))
                rep.count("bands sample size n=%d" % len(YS[op["ys"]][0]))
                if op["method"] in ("et", "hd") and len(YS[op["ys"]][0]) >= 9:
                    rep.count("ld call with n >= 9: n_jobs=" + tok(op["n_jobs"]))
            if op["op"] in ("P", "B", "F"):
                rep.count("generator=" + ("explicit" if op["gen"] is not None else "global"))
            my_repeat = tr.repeats(op)
            any_repeat = any_repeat or my_repeat
            if my_repeat != pred_code[i]["repeat"]:
                rep.disagree(op="predicate", note="harness and model disagree on the repeated-ld-key predicate", input=hist_in, index=i)
            rep.case((name, seed, i, json.dumps(op, sort_keys=True)),
                     sample=dict(call=python_line(op), model=code_r[i]) if i == len(ops) - 1 else None)
            if after["error"]:
                violate(what=f"call {i} raised {after['error']}", input=dict(hist_in, index=i), call=python_line(op))
            else:
                if after["legacy"] != before["legacy"]:
                    violate(what="numpy's legacy global random state changed", input=dict(hist_in, index=i),
                                call=python_line(op))
                # isolation, stated directly: an explicit generator other than the global object leaves the global alone
                if op["op"] in ("P", "B", "F") and op["gen"] is not None and op["gen"] != tr.glob:
                    if after["states"][tr.glob] != before["states"][tr.glob] or after["gidx"] != before["gidx"]:
                        violate(what="a call given an explicit generator changed the global default generator",
                                    input=dict(hist_in, index=i), call=python_line(op))
            if i < len(ops) - 1:
                tr.apply(op)

        # ---- the whole trace against the repository-policy model; if that fails on a history with a repeated ld key,
        #      against the specification-policy model (an implementation that recomputes meets the property)
        found = against_model(ops, trace, pred_code)
        followed = pred_code
        if found and any_repeat:
            found_spec = against_model(ops, trace, pred_spec)
            if not found_spec:
                rep.count("history with a repeated ld key follows the specification policy (table recomputed)")
                found, followed = [], pred_spec
        for kind, i, msg, extra in found:
            if kind == "violate":
                violate(what=msg, input=dict(hist_in, index=i, other=extra.get("other")), call=python_line(ops[i]),
                            expected=extra.get("expected"), observed=extra.get("observed"))
            else:
                rep.disagree(op="effect", note=msg, input=hist_in, index=i, call=python_line(ops[i]))

        # ---- the observed call against a fresh process
        last = ops[-1]
        if ftrace is None:
            rep.skip("observed op is not a randomised entry point")
            continue
        rep.count("fresh mode=" + mode)
        is_f1 = tr.repeats(last)
        used = tr.used(last)
        h_after, f_after = trace[-1], ftrace[-1]
        f_used = 1 if mode != "reseed" else f_after["gidx"]
        if f_after["error"] or h_after["error"]:
            if not h_after["error"]:
                rep.disagree(op="fresh", note="fresh process raised " + str(f_after["error"]), input=hist_in)
            continue
        same_result = h_after["result"] == f_after["result"]
        same_state = h_after["states"][used] == f_after["states"][f_used]
        rep.case((name, seed, "fresh"), sample=dict(observed=python_line(last), same_result=same_result,
                                                      same_state=same_state, repeated_ld_key=is_f1))
        rep.count("observed call repeats an ld key" if is_f1 else "observed call does not repeat an ld key")
        model_fresh = followed[len(ops) - 1]["fresh"]
        if same_result and same_state:
            if not model_fresh:
                rep.count("model predicted history dependence, implementation is history independent")
            continue
        what = []
        if not same_result:
            what.append("returns a different result")
        if not same_state:
            what.append("leaves its generator in a different state")
        kw = dict(what="after this history the observed call " + " and ".join(what) + " than in a fresh process whose "
                       "generator is in the same state" + (" (set_seed to the same value)" if mode == "reseed" else ""),
                  input=dict(hist_in, fresh_process=python_lines(fops), fresh_mode=mode,
                             generator_state_before=trace[len(ops) - 1]["states"][used]),
                  expected=dict(result=f_after["result"], state=f_after["states"][f_used]["state"]),
                  observed=dict(result=h_after["result"], state=h_after["states"][used]["state"]),
                  call=python_line(last), model_predicts_equal=model_fresh)
        if is_f1:
            kw["finding_key"] = F1_KEY
        violate(**kw)

    keyed = {}
    for kw in pending:
        if kw.get("finding_key") is None:
            rep.violate(**kw)
    for kw in pending:
        k = kw.get("finding_key")
        if k is not None:
            keyed[k] = keyed.get(k, 0) + 1
            if keyed[k] <= 3:
                rep.violate(**kw)
            else:
                rep.count(f"further violations keyed {k} (not listed)")
    return rep.result(
        rule="36 structured histories (incl. generators in the same state with n_jobs 1 / 2 / 16 / default at sample sizes 9 and 12; generators that are freed and re-allocated), (incl. pairs of calls on distinct generators in equal states) (F1 explicit/global, set_seed rebinding, n_jobs, overwriting returned arrays, "
             "set_seed(generator), size 0, fits) + random histories of 2-12 calls over seeds {0,1,2,7}, 8 distributions x "
             "sizes {None,3,(2,2),0,1}, 8 samples (n=1..4; n=9, 12 with probability 0.08 per bands call) x confidences {.5,.9,.25} x methods {dkw,ks,ld_et,ld_hd} x n_jobs "
             "{1,2,16,None}, small fits, overwrites; the observed call repeats an earlier ld call's arguments with "
             "probability .35. A case is one call compared with the model's effect set, plus one fresh-process "
             "comparison per history; distinct = distinct (history, index, call).",
        extra=dict(driver_lines=drv.lines))


if __name__ == "__main__":
    if "--worker" in sys.argv:
        worker()
    else:
        import common as C
        C.main(run)
