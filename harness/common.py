"""Shared plumbing of the correspondence harnesses (run under /venv/bin/python, repo imported in-process)."""
import hashlib
import json
import os
import random
import struct
import subprocess
import sys
import time
import zlib
from fractions import Fraction as Fr

if hasattr(sys, "set_int_max_str_digits"):
    sys.set_int_max_str_digits(0)   # exact rationals of large samples have thousands of digits

VERIF = os.path.dirname(os.path.dirname(os.path.abspath(__file__)))
REPO = os.environ.get("OPDA_REPO", "/repo")
DRIVER = os.path.join(VERIF, "lean", ".lake", "build", "bin", "opda_driver")

_vendor = os.path.join(VERIF, ".vendor")
if os.path.isdir(_vendor) and _vendor not in sys.path:
    sys.path.append(_vendor)


def import_repo():
    """Import opda from REPO/src (the working tree), never from a stale copy."""
    src = os.path.join(REPO, "src")
    if src not in sys.path:
        sys.path.insert(0, src)
    import opda  # noqa: F401
    path = os.path.dirname(os.path.abspath(opda.__file__))
    if not path.startswith(os.path.abspath(src)):
        raise RuntimeError(f"opda imported from {path}, expected under {src}")


def rng_for(prop, seed):
    return random.Random(int(seed) * 1000003 + zlib.crc32(prop.encode()))


# ---------------------------------------------------------------- wire format

def fhex(x):
    return "%016x" % struct.unpack("<Q", struct.pack("<d", float(x)))[0]


def unhex(s):
    return struct.unpack("<d", struct.pack("<Q", int(s, 16)))[0]


def flist(xs):
    xs = list(xs)
    return "%d %s" % (len(xs), " ".join(fhex(x) for x in xs)) if xs else "0"


def ilist(xs):
    xs = list(xs)
    return "%d %s" % (len(xs), " ".join(str(int(x)) for x in xs)) if xs else "0"


def parse_ext(tok):
    """'-inf' | 'inf' | 'nan' | 'num/den' -> float('-inf') | float('inf') | None | Fraction"""
    if tok == "-inf":
        return float("-inf")
    if tok == "inf":
        return float("inf")
    if tok == "nan":
        return None
    n, d = tok.split("/")
    return Fr(int(n), int(d))


def ext_of_float(x):
    x = float(x)
    if x != x:
        return None
    if x in (float("inf"), float("-inf")):
        return x
    return Fr(x)


def to_float(v):
    return float(v) if v is not None else float("nan")


class Driver:
    """Batch interface to the compiled Lean model driver."""

    def __init__(self, path=DRIVER):
        if not os.path.exists(path):
            raise RuntimeError(f"model driver not built: {path}")
        self.path = path
        self.lines = 0

    def run(self, requests):
        """requests: list of (op, argstring). Returns list of reply token lists, or None for reject."""
        if not requests:
            return []
        text = "".join(f"{i} {op} {args}\n" for i, (op, args) in enumerate(requests))
        p = subprocess.run([self.path], input=text.encode(), stdout=subprocess.PIPE, stderr=subprocess.PIPE)
        if p.returncode != 0:
            raise RuntimeError(f"driver failed rc={p.returncode}: {p.stderr.decode()[:500]}")
        out = p.stdout.decode().splitlines()
        if len(out) != len(requests):
            raise RuntimeError(f"driver replied {len(out)} lines to {len(requests)} requests")
        self.lines += len(out)
        res = []
        for i, ln in enumerate(out):
            toks = ln.split(" ")
            if toks[0] != str(i):
                raise RuntimeError(f"driver reply out of order: {ln[:80]}")
            res.append(toks[2:] if toks[1] == "ok" else None)
        return res


# ---------------------------------------------------------------- reporting

class Report:
    """Collects what a correspondence run covered and what it found."""

    def __init__(self, prop, seed, tier):
        self.prop, self.seed, self.tier = prop, int(seed), tier
        self.evaluations = 0
        self.keys = set()
        self.samples = []
        self.hist = {}
        self.skipped = {}
        self.disagreements = []   # model vs implementation (correspondence broke)
        self.violations = []      # property itself fails on the real code (with the failing input)
        self.notes = []
        self.t0 = time.time()

    def count(self, name, k=1):
        self.hist[name] = self.hist.get(name, 0) + k

    def skip(self, name, k=1):
        self.skipped[name] = self.skipped.get(name, 0) + k

    def case(self, key, nontrivial=True, sample=None):
        """one evaluated comparison; `key` identifies the case for distinct counting"""
        self.evaluations += 1
        if nontrivial:
            self.keys.add(hashlib.blake2b(repr(key).encode(), digest_size=8).digest())
        if sample is not None and len(self.samples) < 6:
            self.samples.append(sample)

    def disagree(self, **kw):
        if len(self.disagreements) < 25:
            self.disagreements.append(kw)
        self.count("disagreements")

    def violate(self, **kw):
        if len(self.violations) < 25:
            self.violations.append(kw)
        self.count("violations")

    def result(self, rule, extra=None):
        r = {
            "property": self.prop, "seed": self.seed, "tier": self.tier,
            "evaluations": self.evaluations, "distinct_nontrivial": len(self.keys),
            "rule": rule, "samples": self.samples, "histogram": self.hist, "skipped": self.skipped,
            "disagreements": self.disagreements, "violations": self.violations, "notes": self.notes,
            "wall_s": round(time.time() - self.t0, 3),
        }
        if extra:
            r.update(extra)
        return r


SHAPES = [(), (1,), (1, 1), (3, 1), (1, 3), (2, 3), (0,), (0, 2), (2, 1, 2)]


def shape_probe(fn, xs, shapes=SHAPES, accept_0d_array=False):
    """"scalars map to scalars, arrays to arrays of the same shape": evaluate `fn` on the same values arranged in several
    shapes (incl. length-1 and length-0 axes, where squeeze/atleast_1d/boolean-mask code goes wrong) and compare with the
    element-wise reference fn(1-D array).  Returns a list of (shape, description) for every failing shape."""
    import numpy as np

    def same(u, v):
        # element-wise agreement up to a few ulps (numpy's scalar and array code paths may round differently)
        u, v = np.asarray(u, dtype=float), np.asarray(v, dtype=float)
        return bool(np.all((u == v) | (np.isnan(u) & np.isnan(v)) | (np.abs(u - v) <= 1e-9 * np.maximum(np.abs(u), np.abs(v)))))
    xs = list(xs)
    out = []
    ref = np.asarray(fn(np.array(xs, dtype=float)))
    if ref.shape != (len(xs),):
        return [((len(xs),), f"1-D query of length {len(xs)} gave shape {list(ref.shape)}")]
    for sh in shapes:
        n = int(np.prod(sh)) if sh else 1
        if n > len(xs):
            continue
        if sh == ():
            r = fn(xs[0])
            if not (np.isscalar(r) or (accept_0d_array and np.shape(r) == ())):
                out.append((sh, f"scalar query gave {type(r).__name__} of shape {list(np.shape(r))}"))
            elif not same(r, ref[0]):
                out.append((sh, "scalar query differs from the same value inside an array"))
            continue
        q = np.array(xs[:n], dtype=float).reshape(sh)
        r = fn(q)
        if np.shape(r) != sh:
            out.append((sh, f"query of shape {list(sh)} gave shape {list(np.shape(r))}"))
        elif not same(np.ravel(np.asarray(r, dtype=float)), ref[:n]):
            out.append((sh, f"query of shape {list(sh)} is not the element-wise result"))
        if n < 2:
            continue
        # memory layout: the same numbers at the same indices, stored otherwise (what `grid.T`, `np.meshgrid`, slicing and
        # `np.broadcast_to` hand to a method).  result[idx] must be the value at q[idx] whatever the strides are.
        layouts = []
        if len(sh) >= 2:
            layouts.append(("Fortran-ordered", np.asfortranarray(q)))
            layouts.append(("transposed view", np.ascontiguousarray(q.T).T))
        wide = np.zeros(sh[:-1] + (2 * sh[-1],))
        wide[..., ::2] = q
        layouts.append(("strided view", wide[..., ::2]))
        layouts.append(("reversed view", np.ascontiguousarray(q[..., ::-1])[..., ::-1]))
        for lab, ql in layouts:
            assert ql.shape == sh and np.array_equal(ql, q, equal_nan=True)
            keep = ql.copy()
            rl = fn(ql)
            if not np.array_equal(ql, keep, equal_nan=True):
                out.append((sh, f"query of shape {list(sh)} ({lab}) was modified in place"))
            elif np.shape(rl) != sh:
                out.append((sh, f"query of shape {list(sh)} ({lab}) gave shape {list(np.shape(rl))}"))
            elif not same(np.array([np.asarray(rl, dtype=float)[idx] for idx in np.ndindex(*sh)]), ref[:n]):
                out.append((sh, f"query of shape {list(sh)} given as a {lab} is not the element-wise result (result[idx] must be the value at query[idx])"))
    return out



# ---------------------------------------------------------------- the same real numbers in another container
INT_DTYPES = ("int8", "uint8", "int16", "uint16", "int32", "uint32", "int64", "uint64")


def number_containers(vals, rng, allow_float32=True, k=2):
    """Present the finite reals `vals` (a list of Python floats) in up to `k` other containers that hold *exactly* the same
    numbers: a list of Python ints, an integer ndarray of every width that can hold them, a float32 ndarray (only if every
    value is exactly representable).  A property that quantifies over "every real n" holds for the number, not for the
    float64 ndarray the number happens to arrive in; numpy picks the precision of some ufuncs (scipy.special in
    particular) from the input dtype, so this is an input axis of its own.  float16 is left out on purpose: half
    precision is an explicit request for a low-precision computation.  Returns [(label, object)]."""
    import numpy as np
    out = []
    if all(float(v).is_integer() and abs(v) < 2 ** 62 for v in vals):
        iv = [int(v) for v in vals]
        out.append(("pyint_list", iv))
        for dt in INT_DTYPES:
            info = np.iinfo(dt)
            if info.min <= min(iv) and max(iv) <= info.max:
                out.append((dt, np.array(iv, dtype=dt)))
    if allow_float32 and all(float(np.float32(v)) == v for v in vals):
        out.append(("float32", np.array(vals, dtype=np.float32)))
    rng.shuffle(out)
    return out[:k]

def jsonable(x):
    import numpy as np
    if isinstance(x, Fr):
        return f"{x.numerator}/{x.denominator}"
    if isinstance(x, (np.floating, float)):
        x = float(x)
        return x if x == x and abs(x) != float("inf") else repr(x)
    if isinstance(x, (np.integer,)):
        return int(x)
    if isinstance(x, np.ndarray):
        return [jsonable(v) for v in x.tolist()]
    if isinstance(x, (list, tuple)):
        return [jsonable(v) for v in x]
    if isinstance(x, dict):
        return {str(k): jsonable(v) for k, v in x.items()}
    if isinstance(x, (np.bool_,)):
        return bool(x)
    return x


def emit(result, out_path):
    with open(out_path, "w") as f:
        json.dump(jsonable(result), f, indent=1)


def main(run):
    """entry point shared by all harnesses: `corr_Cxx.py --seed S --tier T --out FILE [--replay FILE]`"""
    import argparse
    ap = argparse.ArgumentParser()
    ap.add_argument("--seed", type=int, default=0)
    ap.add_argument("--tier", default="quick")
    ap.add_argument("--out", required=True)
    ap.add_argument("--replay", default=None)
    a = ap.parse_args()
    import_repo()
    replay = json.load(open(a.replay)) if a.replay else None
    try:
        res = run(a.seed, a.tier, replay)
    except Exception:  # noqa: BLE001
        if replay is None or "seed" not in replay:
            raise
        # the harness cannot rebuild this one case from the replay file (a stratum without a single-case replay path): the replay file
        # records the seed and tier of the run that found it, and runs are deterministic -- re-running that run reproduces the violation
        import traceback
        traceback.print_exc()
        print("[replay] falling back to the recorded run: seed=%s tier=%s" % (replay.get("seed"), replay.get("tier", a.tier)), file=sys.stderr)
        res = run(int(replay["seed"]), replay.get("tier", a.tier), None)
    emit(res, a.out)
