"""C04 correspondence: empirical tuning curves vs the exact Lean model (and 40-digit powers for fractional n)."""
import warnings
from fractions import Fraction as Fr

import numpy as np

import common as C
import gen_emp as G
from corr_C03 import dist_line, same_value

import mpmath as mp

mp.mp.dps = 50
INF = float("inf")
TIE = Fr(1, 10 ** 12)


def frac_close(impl, model, tol):
    """impl float vs model Fraction/±inf/None(nan) within absolute tol (Fraction)"""
    impl = float(impl)
    if model is None:
        return impl != impl
    if isinstance(model, float):
        return impl == model
    if impl != impl or abs(impl) == INF:
        return False
    return abs(Fr(impl) - model) <= tol


def mp_of(fr):
    return mp.mpf(fr.numerator) / mp.mpf(fr.denominator)


def mpf_to_fraction(x):
    sign, man, exp, _bc = x._mpf_
    v = Fr(int(man)) * (Fr(2) ** int(exp))
    return -v if sign else v


def avg_spec_real(atoms_levels, n, minimize):
    """Σ_j v_j (F_j^n − F_{j−1}^n) (resp. survival form) with exact rational F_j and a real exponent n, at 50 digits.
    atoms_levels: list of (value: Fraction|±inf, F_j: Fraction) over the padded support, in order.
    Returns (value, smallest non-zero weight carried by an infinite atom or None)."""
    tot, prev = mp.mpf(0), Fr(0)
    pos = neg = False
    tiny = None
    for v, F in atoms_levels:
        if minimize:
            w = mp.power(mp_of(1 - prev), n) - mp.power(mp_of(1 - F), n)
        else:
            w = mp.power(mp_of(F), n) - mp.power(mp_of(prev), n)
        changed = F != prev
        prev = F
        if not changed or w == 0:
            continue
        if isinstance(v, float):
            tiny = w if tiny is None else min(tiny, w)
            if v > 0:
                pos = True
            else:
                neg = True
        else:
            tot += w * mp_of(v)
    if pos and neg:
        return None, tiny
    if pos:
        return INF, tiny
    if neg:
        return -INF, tiny
    return tot, tiny


def exact_levels_at_n1(rep, rng, tier, ED):
    """Exact ties that floating point CAN resolve.  With n = 1 the best-of-n quantile level is q itself (x ** 1.0 is x in IEEE arithmetic:
    there is nothing to round), so quantile_tuning_curve(1, q) is ppf(q); at q = cdf(y), y an atom of positive weight, the q-quantile of one
    draw is y (C03: ppf(cdf(y)) = y).  q is the library's own float level for y; the case is judged only when that float does not exceed
    the exact rational level (then the exact generalised inverse at q is y whatever the rounding of the cumulative weights), so the oracle
    is exact arithmetic on the sample.  minimize=True: 1 - (1 - q) ** 1.0 is q exactly when q is dyadic (sample sizes 2, 4, ..., 64)."""
    n_samples = 40 if tier == "quick" else 400
    for si in range(n_samples):
        dyadic = si % 2 == 0
        N = rng.choice([2, 4, 8, 16, 32, 64]) if dyadic else rng.choice([3, 5, 6, 7, 9, 10, 12, 13, 20, 25, 37])
        ys = sorted({round(rng.uniform(-50, 50), rng.choice([0, 1, 3])) for _ in range(N * 3)})[:N]
        if len(ys) < N:
            continue
        rng.shuffle(ys)
        a, b = (-INF, INF) if rng.random() < 0.6 else (min(ys) - rng.choice([0.0, 1.5]), max(ys) + rng.choice([0.0, 2.0]))
        with warnings.catch_warnings():
            warnings.simplefilter("ignore")
            d = ED(np.array(ys, dtype=float), a=a, b=b)
        srt = sorted(ys)
        for k, y in enumerate(srt, start=1):
            q = float(d.cdf(y))
            if Fr(q) > Fr(k, N) or (k > 1 and Fr(q) <= Fr(k - 1, N)):
                rep.skip("n=1_exact_level:library_level_rounded_above_the_exact_level")
                continue
            for mn in ((False, True) if dyadic else (False,)):
                # minimize=True at n = 1 is the same quantile of the same single draw
                for form, n1 in (("int", 1), ("float", 1.0), ("array", np.array([1.0])), ("list", [1, 1])):
                    if form != "int" and rng.random() < 0.6:
                        continue
                    rep.count(f"n=1_exact_level:{'dyadic' if dyadic else 'general'}:minimize={mn}:n_as_{form}")
                    inp = dict(ys=[C.fhex(v) for v in ys], ys_values=ys, a=a, b=b, n=form, q=C.fhex(q), q_value=q, minimize=mn,
                               atom=y, rank=k, N=N)
                    try:
                        with warnings.catch_warnings():
                            warnings.simplefilter("ignore")
                            out = d.quantile_tuning_curve(n1, q=q, minimize=mn)
                    except Exception as e:  # noqa: BLE001
                        rep.violate(what="quantile_tuning_curve raised on a valid input", error=repr(e), input=inp)
                        continue
                    rep.case(("qtc-n1-level", si, k, mn, form))
                    vals = np.atleast_1d(np.asarray(out, dtype=float))
                    if not all(float(v) == float(y) for v in vals):
                        rep.violate(what="quantile_tuning_curve(1, q) at q = cdf(y), y an atom of positive weight, is not y: with n = 1 the best-of-n "
                                         "quantile level is q itself (q ** 1.0 = q, nothing to round) and the q-quantile of one draw is y",
                                    input=inp, expected=y, observed=[float(v) for v in vals],
                                    call=f"EmpiricalDistribution(ys, a={a}, b={b}).quantile_tuning_curve({n1!r}, q=cdf({y}), minimize={mn})")


def layout_probe(rep, rng, tier, ED):
    """every curve on the same ns in several shapes and MEMORY LAYOUTS (C.shape_probe: scalars, length-1 / length-0 axes, 2-D and 3-D, Fortran
    order, transposed / strided / reversed views): result[idx] must be the curve at ns[idx].  The reference is the curve on the 1-D array,
    which the main stream judges against the exact model."""
    for si in range(6 if tier == "quick" else 60):
        N = rng.choice([3, 5, 8, 12])
        ys = [round(rng.uniform(-9, 9), 2) for _ in range(N)]
        weighted = si % 3 == 2
        ws = None
        if weighted:
            raw = [rng.randint(1, 9) for _ in range(N)]
            ws = [r / sum(raw) for r in raw]
        with warnings.catch_warnings():
            warnings.simplefilter("ignore")
            d = ED(ys, ws=ws)
        ns_int = [1, 2, 3, 5, 8, N, N + 2, 1, 4, 7, 2, 6]
        ns_real = [0.5, 1.0, 1.5, 2.25, 3.0, 7.5, 12.0, 0.1, 40.0, 2.0, 5.0, 9.5]
        mn = rng.random() < 0.5
        q = rng.choice([0.25, 0.5, 0.9])
        curves = [("quantile_tuning_curve", lambda ns: d.quantile_tuning_curve(ns, q=q, minimize=mn), ns_real),
                  ("average_tuning_curve", lambda ns: d.average_tuning_curve(ns, minimize=mn), ns_real)]
        if not weighted:
            curves += [("naive_tuning_curve", lambda ns: d.naive_tuning_curve(ns, minimize=mn), ns_int),
                       ("v_tuning_curve", lambda ns: d.v_tuning_curve(ns, minimize=mn), ns_int),
                       ("u_tuning_curve", lambda ns: d.u_tuning_curve(ns, minimize=mn), ns_int)]
        for name, fn, grid in curves:
            rep.count("layout_probe:" + name)
            rep.case(("layout", name, si), nontrivial=False)
            try:
                with warnings.catch_warnings():
                    warnings.simplefilter("ignore")
                    fails = C.shape_probe(fn, grid)
            except Exception as e:  # noqa: BLE001
                fails = [("?", "raised " + repr(e))]
            for sh, msg in fails[:1]:
                rep.violate(what=f"{name}: {msg} (scalars must map to scalars, arrays to arrays of the same shape, element by element)",
                            input=dict(ys=ys, ws=ws, ns=grid, q=q, minimize=mn), shape=list(sh) if sh != "?" else None,
                            call=f"EmpiricalDistribution(ys, ws).{name}(ns arranged in that shape / layout, minimize={mn})")


def run(seed, tier, replay=None):
    from opda.nonparametric import EmpiricalDistribution as ED
    rep = C.Report("C04", seed, tier)
    rng = C.rng_for("C04", seed)
    drv = C.Driver()
    n_dists = 150 if tier == "quick" else 2500
    big = [1030, 1100] if tier == "quick" else [1030, 1100, 1500, 2000]
    cases = []
    for _ in range(n_dists):
        n = rng.choice([1, 2, 3, 4, 5, 7, 10, 16, 25, 40])
        ys = G.gen_values(rng, n, allow_inf=rng.random() < 0.3)
        if any(abs(v) > 1e100 for v in ys if abs(v) != INF):
            ys = [v if abs(v) == INF else float(np.clip(v, -1e100, 1e100)) for v in ys]
        ws = G.gen_weights(rng, n) if rng.random() < 0.5 else None
        a, b = G.gen_bounds(rng, ys)
        cases.append((ys, ws, a, b))
    for N in big:  # large unweighted samples: binomial coefficients beyond the double range (u-statistic)
        cases.append(([rng.random() for _ in range(N)], None, -INF, INF))
    own_strata = replay is None
    if replay is not None:
        v = replay["violation"]["input"] if "violation" in replay else replay
        if "rank" in v or "shape" in replay.get("violation", {}) or not isinstance(v.get("a"), str):
            # a violation of the exact-level / layout strata: they are deterministic given the seed recorded in the replay file
            cases, own_strata, seed = [], True, int(replay.get("seed", seed))
        else:
            cases = [([C.unhex(x) for x in v["ys"]], None if v.get("ws") is None else [C.unhex(x) for x in v["ws"]],
                      C.unhex(v["a"]), C.unhex(v["b"]))]

    # Axis "the caller's arrays": (i) about half of the distributions are built from float64 ndarrays that the CALLER keeps and
    # modifies in place afterwards (sort / reverse / refill with the next sample / permute or zero weights, `gen_emp.caller_mutation`):
    # once straight after construction -- before the first call of any method -- and again before every later call.  The oracle works
    # on the lists the arrays were made from: every curve must describe the sample given at construction.  (ii) argument arrays are
    # objects the caller keeps too: one ns object per case goes into several calls (`gen_emp.SharedArg`) and must be bit-identical after
    # each.  Own generator, so the stream of the cases above does not move.
    rng_m = C.rng_for("C04/caller-arrays", seed)
    rv = (replay.get("violation", replay).get("input") or {}) if replay is not None else {}
    owner = {}      # case index -> dict(ys=ndarray, ws=ndarray|None, done=[statements], todo=[statements of a replay])

    def caller_touches(ci, inp):
        """the caller modifies its arrays (again); the statement is appended to the replay input of everything judged afterwards"""
        o = owner.get(ci)
        if o is None:
            return
        if o["todo"]:
            o["done"].append(G.apply_statement(o["todo"].pop(0), o["ys"], o["ws"]))
        elif replay is None:
            o["done"].append(G.caller_mutation(rng_m, o["ys"], o["ws"]))
        inp["caller_modified_its_arrays_in_place"] = list(o["done"])

    def seq_of(ci, inp, call):
        if ci not in owner:
            return f"EmpiricalDistribution.{call}"
        return ("ys = np.array(ys); ws = None if ws is None else np.array(ws); d = EmpiricalDistribution(ys, ws=ws, a=a, b=b); "
                + "; ".join(inp.get("caller_modified_its_arrays_in_place", [])) + f"; d.{call}(...)   # other calls in between omitted")

    reqs, meta = [], []
    for ci, (ys, ws, a, b) in enumerate(cases):
        N = len(ys)
        inp = dict(ys=[C.fhex(v) for v in ys] if N <= 64 else f"<{N} uniform values, seed-derived>", ws=None if ws is None else [C.fhex(v) for v in ws],
                   a=C.fhex(a), b=C.fhex(b))
        from_arrays = (rng_m.random() < 0.5) if replay is None else bool(rv.get("caller_modified_its_arrays_in_place"))
        with warnings.catch_warnings():
            warnings.simplefilter("ignore")
            if from_arrays:
                owner[ci] = dict(ys=np.array(ys, dtype=float), ws=None if ws is None else np.array(ws, dtype=float), done=[],
                                 todo=list(rv.get("caller_modified_its_arrays_in_place") or []))
                d = ED(owner[ci]["ys"], ws=owner[ci]["ws"], a=a, b=b)
                caller_touches(ci, inp)       # before the first call of any method
                rep.count("caller_arrays:built_from_ndarrays_then_modified_in_place")
            else:
                d = ED(ys, ws=ws, a=a, b=b)
                rep.count("caller_arrays:built_from_lists")
        dl = dist_line(ys, ws, a, b)
        fin = [abs(v) for v in ys if abs(v) != INF]
        scale = max(fin) if fin else 1.0
        tol = Fr(scale) * Fr(1, 10 ** 9) if scale > 0 else Fr(1, 10 ** 300)
        finite = len(fin) == N
        ns_int = sorted(set([1, 2, 3, N, N + 1, max(1, N - 1), 2 * N + 3, rng.randint(1, 64), 64]))
        if N > 100:
            ns_int = [1, 2, N // 2, N // 2 + 1, N - 1, N, N + 7]
        ns_real = [0.25, 0.5, 1.5, rng.uniform(0.1, 5), rng.uniform(5, 300), 1000.0]
        qs = [0.0, 1.0, 0.5, rng.random(), rng.random() ** 4, 1 - rng.random() ** 4]
        rep.count("N=%d" % (N if N < 10 else 10 * (N // 10) if N < 100 else 1000))
        rep.count("weights=" + ("none" if ws is None else "given"))
        rep.count("ties" if len(set(ys)) < N else "distinct")
        # one ndarray object per case, shared by all curve calls in the order a user would make them (naive, u, v, average):
        # a call that modifies its argument in place corrupts the later curves
        # ... and the integers arrive in a container of any width that holds them (numpy picks the precision / wrap-around of
        # some operations from the dtype of its input: the curves are functions of the numbers n, not of their container)
        fits = [dt for dt in C.INT_DTYPES if max(ns_int) <= np.iinfo(dt).max] + ["float32", "float64"]
        dt = rng.choice(fits) if rng.random() < 0.7 else "int64"
        if replay is not None and (replay.get("violation", replay).get("input") or {}).get("ns_container") in fits:
            dt = replay.get("violation", replay)["input"]["ns_container"]
        rep.count("ns_container=" + dt)
        inp["ns_container"] = dt
        shared = np.array(ns_int, dtype=dt)
        # argument objects the caller keeps (quantile_tuning_curve and real-n average_tuning_curve): the float64 grid of all n, and the
        # same numbers in a second container (list / tuple / the integer dtype of this case, integers only)
        nlist = ns_int[:4] + ns_real[:4]
        alt = rng_m.choice(["list", "tuple", dt if dt not in ("float32", "float64") else "int64"])
        alt_idx = list(range(len(nlist))) if alt in ("list", "tuple") else list(range(len(ns_int[:4])))
        kept = dict(nlist=nlist, qs=qs, grids=[(G.SharedArg(nlist, "float64"), list(range(len(nlist)))),
                                                 (G.SharedArg([nlist[i] for i in alt_idx], alt), alt_idx)],
                    real=G.SharedArg(ns_real, "float64"))
        for mn in (False, True):
            if ws is None:
                reqs.append(("emp.naive", f"{dl} {int(mn)} {C.ilist(ns_int)}")); meta.append((ci, "naive", d, mn, ns_int, inp, tol, shared))
                reqs.append(("emp.u", f"{dl} {int(mn)} {C.ilist(ns_int)}")); meta.append((ci, "u", d, mn, ns_int, inp, tol, shared))
                reqs.append(("emp.v", f"{dl} {int(mn)} {C.ilist(ns_int)}")); meta.append((ci, "v", d, mn, ns_int, inp, tol, shared))
            if N <= 64:
                reqs.append(("emp.avg", f"{dl} {int(mn)} {C.ilist(ns_int)}")); meta.append((ci, "avg", d, mn, ns_int, inp, tol, shared))
                reqs.append(("emp.levels", dl)); meta.append((ci, "avg_real", d, mn, ns_real, inp, tol, kept))
                # quantile curve: levels computed here with the *specified* formula in numpy arithmetic
                lv = []
                for n in ns_int[:4] + ns_real[:4]:
                    for q in qs:
                        level = float(1 - (1 - q) ** (1 / n)) if mn else float(q ** (1 / n))
                        lv.append((n, q, min(1.0, max(0.0, level))))
                reqs.append(("emp.ppf", f"{dl} {C.flist([x[2] for x in lv])}")); meta.append((ci, "qtc", d, mn, lv, inp, tol, kept))
    replies = drv.run(reqs)
    # clause "v_tuning_curve(n) equals average_tuning_curve(n)" on the model side: the two exact formulas must agree exactly
    exact = {}
    for (ci, kind, d, mn, ns, inp, tol, shared), r in zip(meta, replies):
        if r is not None and kind in ("avg", "v"):
            exact[(ci, kind, mn)] = (ns, r)
    for (ci, kind, mn), (ns, r) in exact.items():
        if kind == "v" and (ci, "avg", mn) in exact and exact[(ci, "avg", mn)][0] == ns:
            ra = exact[(ci, "avg", mn)][1]
            rep.case(("v==avg", ci, mn))
            if list(r) != list(ra):
                rep.disagree(op="emp.v vs emp.avg", note="the exact V-statistic and the exact average curve of an unweighted sample differ "
                             "(they are equal mathematically: the tied-block weights telescope)", case=ci, minimize=mn, v=r[:3], avg=ra[:3])
    for (ci, kind, d, mn, ns, inp, tol, shared), r in zip(meta, replies):
        ys, ws, a, b = cases[ci]
        if r is None:
            rep.disagree(case=ci, op=kind, note="model rejected a valid input", input=inp)
            continue
        kept, shared = (shared, None) if isinstance(shared, dict) else (None, shared)
        caller_touches(ci, inp)       # the caller goes on using its ys / ws arrays between any two calls
        with warnings.catch_warnings():
            warnings.simplefilter("ignore")
            try:
                if kind == "avg":
                    impl = d.average_tuning_curve(shared, minimize=mn)
                    mods = [C.parse_ext(t) for t in r]
                elif kind == "avg_real":
                    impl = d.average_tuning_curve(kept["real"].obj, minimize=mn)       # one float64 object per case, both directions
                    dmg = kept["real"].changed_by(f"average_tuning_curve(ns, minimize={mn})")
                    if dmg:
                        rep.violate(what="average_tuning_curve modified the caller's ns array in place (later calls on the same array are then wrong)",
                                    input=dict(inp, ns=[float(x) for x in ns], minimize=mn, ns_container="float64"), expected=[float(x) for x in ns],
                                    observed=dmg, call=seq_of(ci, inp, "average_tuning_curve"))
                    al = [(C.parse_ext(t.split(":")[0]), C.parse_ext(t.split(":")[1])) for t in r]
                    mods = [avg_spec_real(al, n, mn) for n in ns]
                    tinies = [m[1] for m in mods]
                    mods = [m[0] for m in mods]
                elif kind == "qtc":
                    impl = [d.quantile_tuning_curve(n, q=q, minimize=mn) for n, q, _ in ns]
                    mods = [(C.parse_ext(r[2 * i]), C.parse_ext(r[2 * i + 1])) for i in range(len(ns))]
                else:
                    f = dict(naive=d.naive_tuning_curve, v=d.v_tuning_curve, u=d.u_tuning_curve)[kind]
                    impl = f(shared, minimize=mn)
                    mods = [C.parse_ext(t) for t in r]
            except Exception as e:
                rep.violate(what=f"{kind} curve raised on a valid input", error=repr(e), input=dict(inp, ns=[float(x) if not isinstance(x, tuple) else x[0] for x in ns], minimize=mn))
                continue
        if kind != "qtc" and np.shape(impl) != (len(ns),):
            rep.violate(what=f"{kind} curve output shape differs from ns shape", input=dict(inp, minimize=mn))
            continue
        call = dict(avg="average_tuning_curve", avg_real="average_tuning_curve", qtc="quantile_tuning_curve",
                    naive="naive_tuning_curve", v="v_tuning_curve", u="u_tuning_curve")[kind]
        aliased = (" -- the caller modified the ys / ws arrays it had passed to the constructor in place afterwards; the instance must keep "
                   "describing the sample it was given") if ci in owner else ""
        if kind == "qtc":
            # the same ns OBJECT in every call of this case (all q, both directions), as in `ns = np.linspace(..); hi.quantile_tuning_curve(ns);
            # pt.quantile_tuning_curve(ns); ...`: each call's values against the exact model at the numbers the caller put into the object
            nq = len(kept["qs"])
            for S, idxs in kept["grids"]:
                rep.count("shared_ns_object:quantile_tuning_curve:" + S.container)
                for qi, q in enumerate(kept["qs"]):
                    caller_touches(ci, inp)
                    vin = dict(inp, ns=[kept["nlist"][k] for k in idxs], ns_container=S.container, q=q, minimize=mn)
                    try:
                        with warnings.catch_warnings():
                            warnings.simplefilter("ignore")
                            out = d.quantile_tuning_curve(S.obj, q=q, minimize=mn)
                    except Exception as e:  # noqa: BLE001
                        S.changed_by(f"quantile_tuning_curve(ns, q={q!r}, minimize={mn}) raised {e!r}")
                        rep.violate(what="quantile_tuning_curve raised on a valid input (an ns object the caller passes to several calls)" + aliased, error=repr(e),
                                    input=dict(vin, ns_object_now=S.current(), calls_on_this_object=list(S.calls)), call=seq_of(ci, inp, call))
                        continue
                    dmg = S.changed_by(f"quantile_tuning_curve(ns, q={q!r}, minimize={mn})")
                    if dmg:
                        rep.violate(what="quantile_tuning_curve modified the caller's ns array in place (the next call with the same array -- another band, "
                                         "another q, the other direction -- is evaluated on what it left there)",
                                    input=vin, expected=vin["ns"], observed=dmg, call=seq_of(ci, inp, call))
                    if np.shape(out) != (len(idxs),):
                        rep.violate(what="quantile_tuning_curve output shape differs from ns shape", input=vin, observed=list(np.shape(out)))
                        continue
                    for k, ni in enumerate(idxs):
                        i = ni * nq + qi
                        nn, q_, level = ns[i]
                        mv, margin = mods[i]
                        if margin <= TIE and level not in (0.0, 1.0):
                            rep.skip("qtc_level_within_1e-12_of_a_cdf_level")
                            continue
                        if level == 1.0 and margin <= TIE:
                            rep.skip("qtc_level_1_tie")
                            continue
                        rep.case(("qtc-shared", S.container, inp["ys"] if isinstance(inp["ys"], str) else tuple(inp["ys"]), str(inp["ws"]), inp["a"], inp["b"], mn, nn, q))
                        if not same_value(out[k], mv):
                            rep.violate(what="quantile_tuning_curve(ns,q)[k] is not ppf of the best-of-n quantile level at the k-th n the caller put into the "
                                             "array it passes to every call" + aliased,
                                        input=dict(vin, k=k, n=nn, level=C.fhex(level), calls_on_this_object=list(S.calls), ns_object_now=S.current()),
                                        expected=str(mv), observed=float(out[k]), call=seq_of(ci, inp, call))
        for i, n in enumerate(ns):
            if kind == "qtc":
                nn, q, level = n
                mv, margin = mods[i]
                if margin <= TIE and level not in (0.0, 1.0):
                    rep.skip("qtc_level_within_1e-12_of_a_cdf_level")
                    continue
                if level == 1.0 and margin <= TIE:
                    rep.skip("qtc_level_1_tie")
                    continue
                rep.case((kind, inp["ys"] if isinstance(inp["ys"], str) else tuple(inp["ys"]), str(inp["ws"]), inp["a"], inp["b"], mn, nn, q),
                         sample=dict(op=call, ys=ys if len(ys) <= 12 else len(ys), n=nn, q=q, minimize=mn, model=str(mv), impl=float(impl[i])))
                if not same_value(impl[i], mv):
                    rep.violate(what="quantile_tuning_curve(n,q) is not ppf of the best-of-n quantile level" + aliased,
                                input=dict(inp, n=nn, q=q, minimize=mn, level=C.fhex(level)), expected=str(mv), observed=float(impl[i]),
                                call=seq_of(ci, inp, call))
                continue
            mv = mods[i]
            if kind == "avg_real" and mv is not None and not isinstance(mv, float):
                mvf = mpf_to_fraction(mv)
            else:
                mvf = mv
            if kind in ("avg", "avg_real") and (mvf is None or isinstance(mvf, float)) and not same_value(impl[i], mvf):
                # the exact expectation is infinite/undefined because an infinite observation carries mass; in floating point
                # a mass below the double range underflows to 0 and is (correctly, by the code's guard) dropped
                if kind == "avg" or (tinies[i] is not None and tinies[i] < mp.mpf(10) ** -280):
                    rep.skip("nonfinite_expectation_with_underflowing_mass")
                    continue
            rep.case((kind, inp["ys"] if isinstance(inp["ys"], str) else tuple(inp["ys"]), str(inp["ws"]), inp["a"], inp["b"], mn, n),
                     sample=dict(op=call, ys=ys if len(ys) <= 12 else len(ys), ws=ws, n=n, minimize=mn, model=str(mvf)[:60], impl=float(impl[i])))
            ok = same_value(impl[i], mvf) if kind == "naive" else frac_close(impl[i], mvf, tol)
            if not ok:
                fk = None
                if kind == "u" and not (float(impl[i]) == float(impl[i])) and len(ys) >= 1000:
                    fk = "F7-u-curve-nan-binomial-overflow"
                what = {
                    "avg": "average_tuning_curve(n) differs from sum_y y*(F(y)^n - F(y-)^n) in exact arithmetic",
                    "avg_real": "average_tuning_curve(n) differs from sum_y y*(F(y)^n - F(y-)^n) (50-digit powers of exact levels)",
                    "naive": "naive_tuning_curve(n) is not the best of the first min(n,N) observations",
                    "v": "v_tuning_curve(n) differs from the exact V-statistic (= average_tuning_curve of the unweighted sample)",
                    "u": "u_tuning_curve(n) differs from the mean over all subsets of size min(n,N) of their best element",
                }[kind]
                v = dict(what=what + " by more than 1e-9*max|obs|" + aliased, input=dict(inp, n=n, minimize=mn), expected=str(mvf)[:80],
                         observed=float(impl[i]) if float(impl[i]) == float(impl[i]) else "nan", call=seq_of(ci, inp, call))
                if fk:
                    v["finding_key"] = fk
                rep.violate(**v)
        if shared is not None and not np.array_equal(shared, np.array(ns)):
            rep.violate(what=f"{call} modified the caller's ns array in place (later curves evaluated on the same array are then wrong)",
                        input=dict(inp, ns=[int(x) for x in ns], minimize=mn), observed=[int(x) for x in shared], call=f"EmpiricalDistribution.{call}")
        # scalar n gives a scalar
        if kind in ("avg", "naive", "v", "u"):
            f = dict(avg=d.average_tuning_curve, naive=d.naive_tuning_curve, v=d.v_tuning_curve, u=d.u_tuning_curve)[kind]
            with warnings.catch_warnings():
                warnings.simplefilter("ignore")
                s = f(ns[0], minimize=mn)
            if np.shape(s) != ():
                rep.violate(what=f"{call} of a scalar n is not a scalar", input=dict(inp, n=ns[0]))
    # ---- history stratum: one instance, the same ns object, the direction flipped back and forth (F, T, F) with nothing in
    # between.  Each value must still be the exact curve of ITS direction (a memo keyed on ns alone, or state left behind by the
    # previous call, shows here and nowhere else: the main loop interleaves other curves and other ns between two such calls).
    by_case = {}
    for (ci, kind, d, mn, ns, inp, tol, shared), r in zip(meta, replies):
        if r is not None and kind in ("avg", "v", "u", "naive"):
            by_case.setdefault((ci, kind), {})[mn] = (d, ns, [C.parse_ext(t) for t in r], inp, tol)
    for (ci, kind), per in sorted(by_case.items()):
        if set(per) != {False, True} or (ci + len(kind)) % 3:
            continue
        d, ns, _, inp, tol = per[False]
        ys, ws, a, b = cases[ci]
        with warnings.catch_warnings():
            warnings.simplefilter("ignore")
            dd = ED(ys, ws=ws, a=a, b=b)        # a fresh instance with no earlier calls
            f = dict(avg=dd.average_tuning_curve, naive=dd.naive_tuning_curve, v=dd.v_tuning_curve, u=dd.u_tuning_curve)[kind]
            arr = np.array(ns)
            order = (False, True, False) if ci % 2 else (True, False, True)
            rep.count("history_flip:" + kind)
            for step, mn in enumerate(order):
                try:
                    impl = f(arr, minimize=mn)
                except Exception as e:  # noqa: BLE001
                    rep.violate(what=f"{kind} curve raised on a valid input (call {step + 1} of a flip sequence on one instance)", error=repr(e),
                                input=dict(inp, ns=[int(x) for x in ns], minimize=mn))
                    break
                mods = per[mn][2]
                bad = None
                for i, n in enumerate(ns):
                    mv = mods[i]
                    if kind == "avg" and (mv is None or isinstance(mv, float)):
                        continue        # infinite / undefined exact expectation: judged (with its exclusion) in the main loop
                    rep.case(("flip", kind, ci, step, mn, n), nontrivial=True)
                    ok = same_value(impl[i], mv) if kind == "naive" else frac_close(impl[i], mv, tol)
                    if not ok and bad is None:
                        bad = (n, mv, impl[i])
                if bad is not None:
                    call = dict(avg="average_tuning_curve", naive="naive_tuning_curve", v="v_tuning_curve", u="u_tuning_curve")[kind]
                    rep.violate(what=f"{call}(ns, minimize={mn}) differs from the exact curve when it is call {step + 1} of the sequence "
                                     f"minimize={list(order)} on ONE instance with the same ns (the first call of a fresh instance is right)",
                                input=dict(inp, n=bad[0], ns=[int(x) for x in ns], minimize=mn, history=[bool(m) for m in order[:step]]),
                                expected=str(bad[1])[:80], observed=float(bad[2]) if float(bad[2]) == float(bad[2]) else "nan",
                                call=f"EmpiricalDistribution.{call}")
                    break
    if own_strata:
        exact_levels_at_n1(rep, C.rng_for("C04-n1-levels", seed), tier, ED)
        layout_probe(rep, C.rng_for("C04-layouts", seed), tier, ED)
    return rep.result(
        rule="structured samples (sizes 1-40 with ties/infinite values/weights, plus unweighted samples of >1000 points); n: 1,2,3,N-1,N,"
             "N+1,2N+3,64 and random integers (exact rational model), real n in [0.1,1000] (exact levels from the model, 50-digit "
             "powers); q in {0,1,.5,random,near 0,near 1}; both minimize settings. case = (curve, distribution, n[,q], minimize). "
             "The caller's arrays (own generator): about half of the distributions are built from float64 ndarrays that the caller then modifies "
             "in place (sort/reverse/negate/rescale/refill/overwrite one entry; permute/zero/renormalise weights) straight after construction and "
             "again before every call -- judged by the exact model of the sample given at construction; quantile_tuning_curve and real-n "
             "average_tuning_curve also receive ONE ns object per case in every call (float64 ndarray; list / tuple / integer ndarray), which "
             "must be bit-identical after each call, each call's values judged by the exact model at the caller's numbers."
             " Exact levels at n = 1: q = cdf(y) at every atom of unweighted samples (dyadic sizes: both directions), n given as 1, 1.0, [1.0], "
             "[1, 1]: the curve must return y (the level q ** 1.0 needs no rounding).",
        extra=dict(driver_lines=drv.lines))


if __name__ == "__main__":
    C.main(run)
