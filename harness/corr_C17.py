"""C17 correspondence: remez / minimax_polynomial_approximation output as a certified near-best approximation.

Per case (f, a, b, n, atol) from the property's family the *public* outputs
    rs, ys, err = remez(f, a, b, n, atol=atol)          p, err = minimax_polynomial_approximation(...)
are handed, as exact rationals, to the verified checkers of the Lean model:

  approx.altlev de la Vallee-Poussin certificate (theorem C17.levelled_reference_certifies_lower_bound):
                n+2 strictly increasing points in [a,b]; sign and magnitude of f(r_i) - P(r_i) decided from
                rational enclosures of f(r_i) (exact for polynomial f, mpmath 50 digits otherwise), P the polynomial
                the reference points define (exact levelled interpolant on the returned reference);
  approx.alt    the same certificate for the exact interpolant of the values the returned callable takes at the first
                n+1 reference points (evidence only: it differs from the former by the rounding of h);
  approx.cpoly / approx.chalf
                upper bound |f - P| <= err+atol+1e-11*max|f| on ALL of [a,b] (theorems C17.upper_bound_poly /
                upper_bound_half_integer_power) when f is a polynomial or x^(m+1/2);
  approx.lagr   the callable agrees with the exact interpolant P (C18 tolerance) at random points;
  approx.level  the values defining the callable are ys_i - h(-1)^i with the model's exact levelled h.

The property's own upper-bound clause is evaluated on its 40,000-point grid plus local refinement for every
case (the certificate, where it succeeds, extends it to the continuum; which one decided is counted).

Usage axes (gen_approx: near_points / history_plans / run_history): the local refinement is repeated with *scalar* calls of
the returned polynomial next to every reference point (array and scalar queries may take different code paths), and the
polynomial is called several times with equally shaped queries while every returned object is kept (no copy), one of them
overwritten by the caller, the caller's query array refilled in place.  Every value handed out is judged by the upper-bound
clause (f enclosed in rationals) and compared with the exact interpolant of the node values; returned objects must not share
memory with each other or with the query.
"""
import os
import warnings
from fractions import Fraction as Fr

import numpy as np

import common as C
import gen_approx as G

REL = Fr(1, 10 ** 13)
ULP = 2.0 ** -52


def violate(rep, **kw):
    """rep.violate, keeping one replay per known-finding key so that findings cannot crowd out other violations"""
    key = kw.get("finding_key")
    if key is not None:
        if rep.hist.get("finding=" + key):
            rep.count("finding=" + key)
            return
        rep.count("finding=" + key)
    rep.violate(**kw)


def inp_of(spec, a, b, n, atol, prime=None):
    d = dict(f=spec, a=C.fhex(a), b=C.fhex(b), n=int(n), atol=None if atol is None else C.fhex(atol))
    if prime is not None:
        # call history: the same function object, interval and degree were solved first with this (looser) atol
        d["primed_with_atol"] = C.fhex(prime)
    return d


def case_of(inp):
    return (inp["f"], C.unhex(inp["a"]), C.unhex(inp["b"]), int(inp["n"]),
            None if inp["atol"] is None else C.unhex(inp["atol"]),
            None if inp.get("primed_with_atol") is None else C.unhex(inp["primed_with_atol"]))


def snippet(inp):
    src = G.source_of(inp["f"])
    return ("f=%s; a=%r; b=%r; n=%d; atol=%r  # opda.approximation.minimax_polynomial_approximation(f, a, b, n, atol=atol)%s"
            % (inp["f"], C.unhex(inp["a"]), C.unhex(inp["b"]), inp["n"],
               None if inp["atol"] is None else C.unhex(inp["atol"]), "" if src is None else "  with " + src))


def gen_return_kind_cases(rng, tier):
    """the kind of object f hands back (gen_approx.RET_ALIAS / RET_FRESH): f(x) = x in every spelling that returns the argument
    itself or a view of it, for n = 0..3 (n = 0: minimax error (b-a)/2; n >= 1: exact fit), on [1,2] and on random intervals of
    the property's widths; and members of the whole family returning read-only / non-contiguous arrays"""
    cases = []
    reps = 1 if tier == "quick" else 6
    for ret in G.RET_ALIAS:
        for n in (0, 1, 2, 3):
            for r in range(reps):
                if (r == 0 and rng.random() < 0.5) or r == 1:
                    a, w = 1.0, 1.0
                else:
                    w = G.gen_width(rng)
                    a = rng.choice([rng.uniform(-5.0, 5.0 - min(w, 9.0)), float(rng.randint(-3, 3))])
                cases.append((G.spec("poly", 0.0, 1.0, ret=ret), a, a + w, n, G.gen_atol(rng)))
    nmax_hist = [0, 1, 2, 3, 4, 5, 6, 8, 10]
    for ret in G.RET_FRESH:
        for _ in range(4 if tier == "quick" else 40):
            if rng.random() < 0.3:
                n = rng.randint(0, 5)
                sp, a, b = G.gen_function(rng, n, kinds=("poly",))
            else:
                sp, a, b = G.gen_function(rng, None, kinds=("pow", "exp", "log", "rec"))
                n = G.gen_degree(rng, sp, a, b, nmax_hist)
            cases.append((dict(sp, ret=ret), a, b, n, G.gen_atol(rng)))
    return cases


def gen_cases(rng, tier, rng_ret=None):
    cases = []
    count = 220 if tier == "quick" else 2500
    nmax_hist = [0, 1, 2, 3, 4, 5, 6, 7, 8, 10, 12, 14, 16, 18, 20] if tier == "quick" else list(range(21))
    for _ in range(count):
        spec, a, b = G.gen_function(rng, None, kinds=("pow", "pow", "exp", "log", "rec"))
        cases.append((spec, a, b, G.gen_degree(rng, spec, a, b, nmax_hist), G.gen_atol(rng)))
    for _ in range(count // 6):
        n = rng.choice(nmax_hist)
        spec, a, b = G.gen_function(rng, n, kinds=("poly",))
        cases.append((spec, a, b, n, G.gen_atol(rng)))
    # exact-fit polynomials (degree <= n) and degree n+1 (constant (n+1)-th derivative)
    for _ in range(10 if tier == "quick" else 150):
        n = rng.randint(0, 8 if tier == "quick" else 20)
        deg = rng.choice([rng.randint(0, min(n, 7)), min(n + 1, 7)])
        w = G.gen_width(rng)
        a = rng.uniform(-3.0, 3.0)
        cs = [rng.choice([rng.uniform(-2.0, 2.0), float(rng.randint(-3, 3))]) for _ in range(deg + 1)]
        if cs[-1] == 0.0:
            cs[-1] = 1.0
        cases.append((G.spec("poly", *cs), a, a + w, n, G.gen_atol(rng)))
    # minimax error well above 1 (large |f|, low degree): absolute tolerances must stay absolute there
    for _ in range(24 if tier == "quick" else 300):
        n = rng.randint(0, 4)
        r = rng.random()
        if r < 0.4:
            l = rng.choice([1.0, rng.uniform(0.8, 2.5)]) * rng.choice([1.0, 1.0, -1.0])
            w = rng.choice([10.0, rng.uniform(4.0, 10.0)])
            a = (rng.uniform(-2.0, 5.0 - w / 2) if l > 0 else rng.uniform(-5.0, 2.0 - w / 2))
            a = min(max(a, -5.0), 5.0)
            sp = G.spec("exp", l)
        elif r < 0.8:
            k = rng.choice([3.5, 4.5, 5.5, rng.uniform(3.0, 6.0)])
            if k == int(k):
                k += 0.25
            a = G.log_uniform(rng, 1e-3, 1.0)
            w = rng.uniform(6.0, 9.9 - a)
            sp = G.spec("pow", k)
        else:
            a = rng.uniform(-5.0, 5.0)
            sp = G.spec("rec", -a + G.log_uniform(rng, 1e-3, 1e-2))
            w = G.log_uniform(rng, 0.1, 10.0)
        cases.append((sp, a, a + w, n, G.log_uniform(rng, 1e-10, 1e-6)))
    if rng_ret is not None:
        cases += gen_return_kind_cases(rng_ret, tier)      # a stream of its own: the cases above stay what they were per seed
        # the sub-epsilon regime (a stream of its own): f is a polynomial of degree <= n to working precision -- narrow intervals, degrees 5..20 --
        # so the error curve the exchange step works on is rounding noise of random sign.  The call may raise OptimizationError; if it
        # returns, the reference is n+2 increasing points and max|f - p| <= err + atol + 1e-11 max|f| like everywhere else.
        rng_se = __import__("random").Random(rng_ret.getrandbits(62))     # (drawn after the return-kind cases: they stay what they were)
        for _ in range(160 if tier == "quick" else 1200):
            kind = rng_se.choice(["pow", "pow", "exp", "log", "rec"])
            w = G.log_uniform(rng_se, 1e-3, 5e-2)
            n = rng_se.randint(5, 20)
            if kind == "pow":
                k = rng_se.uniform(-0.9, 6.0)
                k = k + 0.31 if abs(k - round(k)) < 0.05 else k
                sp, a = G.spec("pow", k), rng_se.uniform(0.5, 9.9 - w)
            elif kind == "exp":
                sp, a = G.spec("exp", rng_se.uniform(-2.0, 2.0)), rng_se.uniform(-5.0, 5.0)
            elif kind == "log":
                a = rng_se.uniform(0.0, 9.0)
                sp = G.spec("log", rng_se.uniform(0.5, 3.0))
            else:
                a = rng_se.uniform(0.0, 9.0)
                sp = G.spec("rec", rng_se.uniform(0.5, 3.0))
            cases.append((sp, a, a + w, n, None if rng_se.random() < 0.7 else G.log_uniform(rng_se, 1e-13, 1e-9)))
    # call history: a fraction of all cases is preceded by a call with the same function object, interval and degree but a
    # looser tolerance (a result must not depend on what was solved before)
    out = []
    for i, c in enumerate(cases):
        prime = None
        if i % 4 == 3:
            at = G.atol_value(c[4])
            prime = rng.choice([1e-6, 1e-3, 1.0])
            if prime <= 10 * at:
                prime = 1e3 * at
        out.append(c + (prime,))
    return out


def sqrt_bracket(a, b):
    """rationals 0 <= tl, th with tl^2 <= a and b <= th^2"""
    tl = Fr(float(np.sqrt(a)))
    while tl * tl > Fr(a):
        tl = Fr(float(np.nextafter(float(tl), 0.0)))
    th = Fr(float(np.sqrt(b)))
    while th * th < Fr(b):
        th = Fr(float(np.nextafter(float(th), np.inf)))
    return tl, th


def usage_queries(inp, a, b, rs):
    """how the returned polynomial is used (derived from the case only, so that a replay regenerates it): scalar queries at a
    ladder of small distances from the reference points (where |f-p| is largest and a local refinement probes), and call
    sequences whose results are kept across calls"""
    hrng = G.case_rng("C17-usage", inp)
    idx = list(range(len(rs)))
    if len(idx) > 8:
        idx = sorted([0, len(rs) - 2, len(rs) - 1] + hrng.sample(idx[1:-2], 5))
    near = G.near_points([float(rs[i]) for i in idx], b - a, lo=a, hi=b)
    near = [(x, idx[i], d) for x, i, d in near]
    pool = ([t[0] for t in hrng.sample(near, min(len(near), 5))] + [float(r) for r in hrng.sample(list(rs), min(len(rs), 3))]
            + [hrng.uniform(a, b) for _ in range(4)] + [a, b])
    return near, pool, G.history_plans(hrng, pool)


def usage_probe(rep, p, near, plans):
    scal = []
    for x, _i, d in near:
        rep.count("scalar_query_distance_from_reference_point=1e%d" % int(np.floor(np.log10(abs(d)) + 1e-9)))
        for kind in G.SCALAR_KINDS:
            rep.count("scalar_query_container=" + kind)
            v = p(G.make_query(kind, (), [x]))
            scal.append((x, kind, np.shape(v), float(v) if np.shape(v) == () else float("nan")))
    hist = []
    for plan in plans:
        rep.count("history(results kept across calls)=%s/%d-D" % (plan["container"], len(plan["shape"])))
        obs, problems = G.run_history(p, plan)
        hist.append((plan, obs, problems))
    return scal, hist


def judge_usage_upper(rep, f, inp, err, at, maxf, scal, hist):
    """the property's upper-bound clause |f(x) - p(x)| <= err+atol+1e-11*max|f| for every value the returned polynomial
    handed out in the usage strata; f(x) is enclosed (exact for polynomial f, mpmath otherwise) and the most favourable
    value of the enclosure is taken, so a verdict does not depend on the rounding of the float f"""
    Bq = Fr(err) + Fr(at) + Fr(1, 10 ** 11) * Fr(maxf) * (1 + Fr(1, 10 ** 9))
    cache = {}

    def excess(x, val):
        if x not in cache:
            lo, hi = G.enclose(f, [x])
            cache[x] = (lo[0], hi[0])
        lo, hi = cache[x]
        if not np.isfinite(val):
            return float("inf")
        v = Fr(val)
        dist = Fr(0) if lo <= v <= hi else min(abs(v - lo), abs(v - hi))
        return float(dist - Bq) if dist > Bq else None
    reported = 0
    for x, kind, shp, val in scal:
        rep.case(("upper-scalar", str(inp), x, kind))
        ex = float("inf") if shp != () else excess(x, val)
        if ex is not None:
            rep.count("scalar_query_exceeds_upper_bound")
            if reported < 1:
                reported += 1
                violate(rep, what="|f(x)-p(x)| at a scalar x next to a reference point exceeds err+atol+1e-11*max|f| "
                                  "(local refinement with scalar calls of the returned polynomial; container: %s)" % kind,
                        input=dict(inp, x=C.fhex(x), container=kind), x_float=x, p_of_x=val, result_shape=list(shp),
                        expected="<= %r" % float(Bq), observed=float(Bq) + ex, err=err,
                        call=snippet(inp).replace("minimax_polynomial_approximation(f, a, b, n, atol=atol)",
                                                  "minimax_polynomial_approximation(f, a, b, n, atol=atol)[0](%s)"
                                                  % {"pyfloat": "float(x)", "np.float64": "np.float64(x)"}.get(kind, "np.array(x)")))
    def call_of(plan):
        return (snippet(inp) + "[0] -> p; R = [p(q) for q in queries]  # every q a %s of shape %r; look at R only afterwards"
                % (plan["container"], tuple(plan["shape"])))
    for plan, obs, problems in hist:
        done = reported >= 3
        for o in obs:
            for x, val in zip(o["xs"], o["values"]):
                rep.case(("upper-history", str(inp), str(plan), o["stage"], o["call"], x))
                rep.count("history_values_judged")
                ex = excess(x, val)
                if ex is not None:
                    rep.count("history_values_exceeding_upper_bound")
                if ex is not None and not done:
                    done = True
                    reported += 1
                    violate(rep, what="|f(x)-p(x)| exceeds err+atol+1e-11*max|f| for the value returned by call %d of a "
                                      "sequence of equally shaped queries on the returned polynomial, %s" % (o["call"], o["stage"]),
                            input=dict(inp, x=C.fhex(x), history=G.plan_repr(plan), call_index=o["call"], stage=o["stage"]),
                            x_float=x, p_of_x=val, expected="<= %r" % float(Bq), observed=float(Bq) + ex, err=err,
                            call=call_of(plan))
    structural = 0
    for plan, obs, problems in hist:
        for kind, detail in problems:
            rep.case(("history-" + kind, str(inp), str(plan)))
            rep.count("history_problem=" + kind)
            if structural >= 1:
                continue
            structural += 1
            violate(rep, what=("the returned polynomial is not shape-preserving in a repeated call: " if kind == "shape" else
                               "values returned by the returned polynomial are not independent values (" + kind + "): ")
                              + detail, input=dict(inp, history=G.plan_repr(plan)), call=call_of(plan))


def hrng_sample(inp, near, k):
    hrng = G.case_rng("C17-usage-exact", inp)
    return hrng.sample(near, min(len(near), k))


def run(seed, tier, replay=None):
    from opda import approximation as A, exceptions as E
    rep = C.Report("C17", seed, tier)
    rng = C.rng_for("C17", seed)
    drv = C.Driver(os.environ.get("OPDA_DRIVER", C.DRIVER))
    if replay is not None:
        v = replay.get("violation", replay)
        cases = [case_of(v["input"])]
    else:
        cases = gen_cases(rng, tier, C.rng_for("C17/return-kinds", seed))

    reqs, meta = [], []
    late = []       # closed-form verdicts, reported after the certificate verdicts (which own the replay of a shared finding key)
    err_by_case = {}
    for ci, (spec, a, b, n, atol, prime) in enumerate(cases):
        f = G.make_f(spec)
        inp = inp_of(spec, a, b, n, atol, prime)
        if prime is not None:
            rep.count("history=primed_with_looser_atol")
            with warnings.catch_warnings():
                warnings.simplefilter("ignore")
                try:
                    A.remez(f.np, a, b, n, atol=prime)
                    A.minimax_polynomial_approximation(f.np, a, b, n, atol=prime)
                except Exception:  # noqa: BLE001  (whatever the priming call does, the call under test is judged on its own)
                    pass
        at = G.atol_value(atol)
        rep.count("f=" + spec["kind"])
        if spec.get("ret") is not None:
            rep.count("f_returns=%s(%s)" % (spec["ret"], "its argument / a view of it" if spec["ret"] in G.RET_ALIAS
                                             else "a fresh array"))
            rep.count("f_returns=%s:n=%d" % ("argument_or_view" if spec["ret"] in G.RET_ALIAS else "readonly_or_strided", min(n, 4))
                      + ("+" if n >= 4 else ""))
        rep.count("n=%d" % n if n < 10 else "n=%d-%d" % (5 * (n // 5), 5 * (n // 5) + 4))
        rep.count("atol=" + ("None" if atol is None else "1e%d" % int(np.floor(np.log10(atol)))))
        rep.count("width=1e%d" % int(np.floor(np.log10(b - a) + 1e-12)))
        with warnings.catch_warnings():
            warnings.simplefilter("ignore")
            try:
                rs, ys, err = A.remez(f.np, a, b, n, atol=atol)
                p, err2 = A.minimax_polynomial_approximation(f.np, a, b, n, atol=atol)
            except E.OptimizationError:
                rep.count("outcome=OptimizationError(allowed)")
                rep.case(("raise", str(inp)), nontrivial=False)
                continue
            except Exception as e:  # noqa: BLE001
                violate(rep, what="remez / minimax_polynomial_approximation raised something other than OptimizationError",
                            error=repr(e), input=inp, call=snippet(inp))
                continue
        rep.count("outcome=returned")
        rs = np.asarray(rs, dtype=float)
        ys = np.asarray(ys, dtype=float)
        err, err2 = float(err), float(err2)
        key = (str(spec), inp["a"], inp["b"], n, inp["atol"], inp.get("primed_with_atol"))
        rep.count("err=" + ("0" if err == 0 else ">=1" if err >= 1 else "1e%d" % int(np.floor(np.log10(err)))))
        err_by_case[ci] = err
        # ---- structure of the reference
        if rs.shape != (n + 2,) or ys.shape != (n + 2,) or not np.all(np.isfinite(rs)):
            violate(rep, what="reference is not n+2 finite points", input=inp, observed=rs, call=snippet(inp))
            continue
        if not (np.all(rs >= a) and np.all(rs <= b) and np.all(np.diff(rs) >= 0)):
            violate(rep, what="reference points are not increasing points of [a,b]", input=inp, observed=rs,
                        call=snippet(inp))
            continue
        if err != err2 and not (err != err and err2 != err2):
            violate(rep, what="remez and minimax_polynomial_approximation report different errors for the same call",
                        input=inp, observed=[err, err2], call=snippet(inp))
        if not (err >= 0.0):
            violate(rep, what="reported error is not a non-negative number", input=inp, observed=err, call=snippet(inp))
            continue
        pv = np.array(p(rs[:-1]), dtype=float)            # the values that define the returned polynomial (copied at once)
        pv_list = [float(v) for v in pv]
        if not np.all(np.isfinite(pv)) or not np.all(np.isfinite(ys)):
            violate(rep, what="the returned polynomial / function values are not finite on the reference", input=inp,
                    observed=pv, call=snippet(inp))
            continue
        e = Fr(err) - Fr(at) - G.SLACK
        grid = np.linspace(a, b, 40000)
        maxf = float(np.max(np.abs(f.np(grid))))
        # ---- lower bound by alternation (verified checker)
        if e <= 0:
            rep.count("lower=vacuous(err<=atol+1e-13)")
            rep.case(("alt0",) + key, nontrivial=False)
        elif not np.all(np.diff(rs) > 0):
            violate(rep, what="reference points are not strictly increasing although err-atol-1e-13 > 0", input=inp,
                        observed=rs, call=snippet(inp))
        else:
            flo, fhi = G.enclose(f, rs)
            ym = [(lo + hi) / 2 for lo, hi in zip(flo, fhi)]
            reqs.append(("approx.altlev", "%d %s %s %s %s %s %s %s %s" % (
                n, C.fhex(a), C.fhex(b), C.flist(rs), G.frlist(ym), G.frlist(flo), G.frlist(fhi), C.fhex(err),
                "-" if atol is None else C.fhex(atol))))
            meta.append(("altlev", ci, inp, dict(rs=rs, err=err, e=e, maxf=maxf)))
            reqs.append(("approx.alt", "%d %s %s %s %s %s %s %s %s" % (
                n, C.fhex(a), C.fhex(b), C.flist(rs), C.flist(pv), G.frlist(flo), G.frlist(fhi), C.fhex(err),
                "-" if atol is None else C.fhex(atol))))
            meta.append(("alt", ci, inp, dict(rs=rs, pv=pv, err=err, e=e)))
        # ---- the callable is the exact interpolant of its own node values (C18 tolerance)
        qs = [rng.uniform(a, b) for _ in range(4)] + [a, b, float(rs[-1])]
        reqs.append(("approx.lagr", "%s %s %s" % (C.flist(rs[:-1]), C.flist(pv), C.flist(qs))))
        meta.append(("lagr", ci, inp, dict(qs=qs, impl=np.asarray(p(np.array(qs)), dtype=float))))
        # ---- usage axes: scalar queries next to the reference points, results kept across calls of the same callable; judged
        #      by the upper-bound clause here and against the exact interpolant of the node values (C18 tolerance) below
        near, pool, plans = usage_queries(inp, a, b, rs)
        try:
            scal, hist = usage_probe(rep, p, near, plans)
        except Exception as e:  # noqa: BLE001
            violate(rep, what="the returned polynomial raised on a scalar query / a repeated query of the same shape",
                    error=repr(e), input=inp, call=snippet(inp))
            scal, hist = [], []
        judge_usage_upper(rep, f, inp, err, at, maxf, scal, hist)
        # (exact rational evaluation is the expensive part of this harness: a sample of the scalar queries and of the pool)
        uq = []
        for x in [t[0] for t in hrng_sample(inp, near, 4)] + pool[:2] + pool[8:10]:
            if x not in uq:
                uq.append(x)
        reqs.append(("approx.lagr", "%s %s %s" % (C.flist(rs[:-1]), C.flist(pv_list), C.flist(uq))))
        meta.append(("lagr-usage", ci, inp, dict(qs=uq, scal=scal, hist=hist)))
        # ---- levelled interpolation: pv_i = ys_i - h (-1)^i with the model's exact h
        if np.all(np.diff(rs) > 0):
            reqs.append(("approx.level", "%d %s %s" % (n, C.flist(rs), C.flist(ys))))
            meta.append(("level", ci, inp, dict(rs=rs, ys=ys, pv=pv)))
        # ---- upper bound: the property's grid + refinement, and the continuum certificate where available
        def absdiff(xs, f=f, p=p):
            return np.abs(f.np(xs) - p(xs))
        bound = err + at + 1e-11 * maxf
        up, upx = G.grid_max(absdiff, a, b)
        rep.case(("upper",) + key, sample=dict(op="upper bound on grid", input=inp, err=err, max_abs_error=up, bound=bound))
        if not (up <= bound):
            violate(rep, what="max|f-p| on the 40,000-point grid (+refinement) exceeds err+atol+1e-11*max|f|", input=inp,
                        x=C.fhex(upx), observed=up, expected="<= %r" % bound, call=snippet(inp))
        if f.poly is not None or f.m2 is not None:
            if f.poly is not None:
                m_lb = max(abs(v) for v in G.enclose(f, [a, b, 0.5 * (a + b)])[0])
            else:
                m_lb = min(G.enclose(f, [b])[0])
            Bq = Fr(err) + Fr(at) + Fr(1, 10 ** 11) * m_lb
            depth = 30 if tier == "quick" else 40
            prec = G.cert_precision(n + 1, a, b, Bq)
            if f.poly is not None:
                reqs.append(("approx.cpoly", "%s %s %s %s %s %s %d %d" % (
                    C.flist(rs[:-1]), C.flist(pv), G.frlist(f.poly), C.fhex(a), C.fhex(b), G.frs(Bq), depth, prec)))
            else:
                tl, th = sqrt_bracket(a, b)
                reqs.append(("approx.chalf", "%s %s %d %s %s %s %s %s %d %d" % (
                    C.flist(rs[:-1]), C.flist(pv), f.m2, C.fhex(a), C.fhex(b), G.frs(Bq), G.frs(tl), G.frs(th), depth, prec)))
            meta.append(("cert", ci, inp, dict(up=up, bound=bound)))
        else:
            rep.count("upper=grid+refinement(f not algebraic)")
        # ---- exact fit
        if f.poly is not None and len(f.poly) - 1 <= n:
            rep.case(("exactfit",) + key)
            rep.count("exact_fit_cases")
            if not (err <= at):
                violate(rep, what="f is a polynomial of degree <= n but the reported error exceeds atol", input=inp,
                            observed=err, expected="<= %r" % at, call=snippet(inp), max_abs_f=maxf,
                            finding_key="C17-exactfit-excess-within-16ulp-of-maxf" if err - at <= 16 * ULP * maxf else None)
        # ---- degree 0, f monotone on [a,b] (every member of the family but general polynomials): the minimax error is
        #      |f(b)-f(a)|/2 in closed form, and the clauses above put err within [E-atol-1e-11*max|f|, E+atol+1e-13] of it
        if n == 0 and (f.poly is None or len(f.poly) == 2):
            (la, lb), (ha, hb) = G.enclose(f, [a, b])
            e_lo, e_hi = max(Fr(0), min(abs(lb - ha), abs(hb - la))) / 2, max(abs(lb - ha), abs(hb - la), abs(hb - ha), abs(lb - la)) / 2
            rep.case(("closed-form-n0",) + key)
            rep.count("closed_form_degree_0_cases")
            over = Fr(err) - (e_hi + Fr(at) + G.SLACK)
            under = (e_lo - Fr(at) - Fr(1, 10 ** 11) * Fr(maxf)) - Fr(err)
            if over > 0 or under > 0:
                late.append(dict(what="degree 0, f monotone: the reported error is not within atol of the closed-form minimax error "
                                  "|f(b)-f(a)|/2 (upper side +1e-13, lower side -1e-11*max|f|, as the certificate clauses imply)",
                        input=inp, observed=err, expected=float((e_lo + e_hi) / 2), max_abs_f=maxf, call=snippet(inp),
                        finding_key=("C17-lower-bound-shortfall-within-16ulp-of-maxf"
                                     if over > 0 and over <= Fr(16 * ULP * maxf) else None)))
        # ---- monotone in n
        if n < 20 and (tier != "quick" or ci % 2 == 0):
            with warnings.catch_warnings():
                warnings.simplefilter("ignore")
                try:
                    _, _, err_next = A.remez(f.np, a, b, n + 1, atol=atol)
                    rep.case(("mono",) + key)
                    if not (float(err_next) <= err + at):
                        violate(rep, what="reported error increases from degree n to n+1 by more than atol", input=inp,
                                    observed=[err, float(err_next)], call=snippet(inp))
                except E.OptimizationError:
                    rep.count("monotone_next_degree=OptimizationError(allowed)")

    replies = drv.run(reqs)
    for (kind, ci, inp, d), r in zip(meta, replies):
        if r is None:
            rep.disagree(op=kind, note="model rejected the implementation's output", input=inp, call=snippet(inp))
            continue
        if kind == "altlev":
            rep.case(("altlev", str(inp)), sample=dict(op="alternation certificate (levelled polynomial of the reference)",
                                                        input=inp, verdict=r[0], sign=r[1], err=d["err"],
                                                        threshold=float(d["e"]), levelled_error=float(C.parse_ext(r[3]))))
            if r[0] == "1":
                rep.count("lower=certified_by_alternation(levelled polynomial of the reference)")
            else:
                # finding predicate: the shortfall of the exact levelled error below err-atol-1e-13 is at most 16 ulps of
                # max|f| (the reported err is a float quantity; the property's absolute 1e-13 does not scale with |f|)
                short = d["e"] - abs(C.parse_ext(r[3]))
                key = "C17-lower-bound-shortfall-within-16ulp-of-maxf" if 0 < short <= Fr(16 * ULP * d["maxf"]) else None
                violate(rep, finding_key=key, shortfall=float(short), max_abs_f=d["maxf"],
                            what="the levelled polynomial defined by the returned reference does not have alternating errors "
                                 "of magnitude >= err-atol-1e-13 (de la Vallee-Poussin certificate rejected)",
                            input=inp, reference=d["rs"], err=d["err"], threshold=float(d["e"]),
                            levelled_error=float(C.parse_ext(r[3])), call=snippet(inp))
        elif kind == "alt":
            rep.case(("alt", str(inp)))
            rep.count("lower(exact interpolant of the returned callable's node values)=" +
                      ("certified" if r[0] == "1" else "not_certified(rounding of h in the callable)"))
        elif kind == "lagr":
            for j, x in enumerate(d["qs"]):
                ev, ls, la = (C.parse_ext(t) for t in r[3 * j:3 * j + 3])
                rep.case(("plagr", str(inp), x), nontrivial=True)
                if ev != ls:
                    rep.disagree(op="lagr", note="model: barycentric form and Lagrange sum differ (theorem broken?)", input=inp)
                iv = float(d["impl"][j])
                if not np.isfinite(iv) or abs(Fr(iv) - ev) > REL * la:
                    rep.disagree(op="lagr", note="returned callable differs from the exact interpolant of its node values by "
                                                 "more than 1e-13*sum|y_j l_j(x)|", input=inp, x=C.fhex(x),
                                 model=float(ev), impl=iv, call=snippet(inp))
        elif kind == "lagr-usage":
            exact = {}
            for j, x in enumerate(d["qs"]):
                exact[x] = (C.parse_ext(r[3 * j]), C.parse_ext(r[3 * j + 2]))
            noted = 0
            vals = [(x, val, "scalar query (%s)" % k) for x, k, _shp, val in d["scal"]]
            for plan, obs, _problems in d["hist"]:
                for o in obs:
                    vals += [(x, val, "call %d of equally shaped queries (%s, shape %r), %s"
                              % (o["call"], plan["container"], tuple(plan["shape"]), o["stage"]))
                             for x, val in zip(o["xs"], o["values"])]
            for x, val, how in vals:
                if x not in exact:
                    continue
                ev, la = exact[x]
                rep.case(("plagr-usage", str(inp), x, how), nontrivial=True)
                if not np.isfinite(val) or abs(Fr(val) - ev) > REL * la:
                    rep.count("usage_value_differs_from_exact_interpolant")
                    if noted < 2:
                        noted += 1
                        rep.disagree(op="lagr", note="returned callable differs from the exact interpolant of its node values by "
                                                     "more than 1e-13*sum|y_j l_j(x)|: " + how, input=inp, x=C.fhex(x),
                                     x_float=x, model=float(ev), impl=val, call=snippet(inp))
        elif kind == "level":
            h, l0, l1 = (C.parse_ext(t) for t in r[:3])
            n = inp["n"]
            tol0 = 2 * REL * (l0 + abs(h) * l1) / (l1 + 1)
            worst = Fr(0)
            for i in range(n + 1):
                want = Fr(float(d["ys"][i])) - h * (1 if i % 2 == 0 else -1)
                tol = tol0 + Fr(4 * float(np.spacing(abs(float(d["ys"][i])) + abs(float(h)))))
                dev = abs(Fr(float(d["pv"][i])) - want)
                worst = max(worst, dev - tol)
            rep.case(("level", str(inp)))
            if worst > 0:
                rep.disagree(op="level", note="values defining the returned polynomial are not ys_i - h(-1)^i with the "
                                              "model's levelled h", input=inp, h=float(h), excess=float(worst),
                             call=snippet(inp))
        elif kind == "cert":
            rep.case(("cert", str(inp)))
            if r[0] == "1":
                rep.count("upper=certified_for_all_x(verified PolyQ certificate)")
            else:
                rep.count("upper=grid+refinement(certificate not found)")
    for kw in late:
        violate(rep, **kw)
    return rep.result(
        rule="cases (f, a, b, n, atol): f in {x^k (k in (-0.9,6) non-integer incl. half-integers, [a,b] in (0,10]), exp(lx), "
             "log(x+d), 1/(x+d), polynomials of degree <= n+1}, b-a in [1e-3,10], n in 0..20, atol in {None} u [1e-13,1e-6]; a stratum "
             "with minimax error >= 1 (exp/x^k/reciprocal with large |f|, n <= 4); a stratum on the object f hands back: f(x)=x returning "
             "its argument / a view of it (7 spellings, n=0..3), any member returning read-only / strided fresh arrays; degree 0 "
             "and f monotone: err against the closed form |f(b)-f(a)|/2; every 4th case is preceded by a call on the same "
             "function object, interval and degree with a looser atol (history independence); the returned polynomial is also used "
             "as a caller would: scalar queries (Python float, numpy scalar, 0-d array) at distances {1e-10..1e-6}*(b-a) and "
             "{1e-9,1e-8} on both sides of the reference points, and sequences of equally shaped queries (scalars, lists, 1-/2-/3-D "
             "arrays) whose results are kept without copying, one overwritten in place by the caller, the query array refilled in "
             "place - every value handed out is judged by the upper-bound clause with f enclosed, and against the exact "
             "interpolant of the node values; "
             "each returned result is checked by the verified alternation checker (when err-atol-1e-13 > 0), the grid upper "
             "bound, the continuum certificate (polynomial / half-integer power), exact fit, monotonicity in n; distinct = "
             "distinct (check, case) pairs.",
        extra=dict(driver_lines=drv.lines))


if __name__ == "__main__":
    C.main(run)
