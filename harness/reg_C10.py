REG = dict(
    lean_targets=["OpdaProofs.Props.C10"],
    harnesses=["corr_C10"],
    timeout=dict(quick=900, thorough=7200),
    trusted_base=[
        "scipy.optimize.differential_evolution (global optimiser + L-BFGS-B polish) is a parameter of the model: "
        "its results enter only through best-of selection; nothing is proved about what it returns",
        "np.round / np.spacing / the `decimals` formula, np.unique's sort, and the library's own cdf values are "
        "black boxes of the model (the harness applies numpy's rounding to the point list the model produces and "
        "feeds the library's cdf values into the model loss)",
        "the factors w, v (scipy.stats beta/norm quantiles and the class's ppf) are computed by the harness from the "
        "formulas in the code comments and handed to the model as numbers; their inputs i_min, j_max, n, cs are "
        "cross-checked against the model's",
        "IEEE-754 rounding: theorems are over linear orders / the reals; the box arithmetic of the model runs in "
        "binary64 (float32 subtraction where numpy uses it) and is compared bit for bit, the loss to the property's "
        "1e-7 relative",
        "the scipy<1.11 compatibility branch of fit is dead for the pinned scipy and is not modelled",
        "the Spec objective of the harness (Python, written from the docstring) decides violations; the Lean theorem "
        "buckets_model_eq_spec ties it to the model under its hypotheses, which the harness evaluates on every case",
    ],
    assumptions=[
        "rounding `np.round(., decimals)` is treated as part of the documented de-duplication (Spec buckets are "
        "built from the rounded observations, limits and support edges)",
        "cases where the library's cdf is not monotone across adjacent bucket edges are skipped (counted)",
        "last clause (objective no worse than at the generating parameters by 1e-6) is evaluated on real fits only",
    ],
)
TEXT = dict(
    level="Universal Lean theorems about an executable model of fit's bookkeeping (both classes): under two explicit side "
          "conditions the positional bucket fix-ups never index out of range and equal the documented bucket counts for "
          "every sample with ties and every limits pattern, the counts sum to n+1, the loss is minus the grouped "
          "log-likelihood/(n+1) plus a constant of (ks,n) and a KL divergence >= 0 (Gibbs, with the equality case), "
          "pack/unpack is the identity on all 16 fixed/free patterns and reads every in-box vector back to the parameter "
          "whose box constrained it, the box is inside every constraint and contains every initial candidate, best-of "
          "returns the first least-fun run; decide-witnesses that each side condition is necessary. Tied to the code on "
          "every run: bounds/integrality/population shape exact, box membership exact, captured objective vs model loss "
          "and vs a docstring Spec at random theta to 1e-7 relative, returned object vs chosen optimiser results.",
    note="Proved: the decision logic and algebra of the model. Compared, not proved: cdf values, numpy rounding, float "
         "arithmetic, the optimiser (trusted), the last clause (real fits only). Side-condition violations on the "
         "unchanged tree are reported as findings F6b/F6c with explicit input predicates (F6a and F6d, found here, are repaired in /repo: 55c25d1).",
)
