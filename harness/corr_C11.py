"""C11 correspondence: `fit` is total (exception classes), feasible (constraints, support) and invariant to the
order of the sample and to the values of censored observations; both parametric classes.

Streams: (1) valid calls with a stubbed optimiser — outcome class vs the Lean decision model and vs the
property, constraint satisfaction, feasibility; (2) the same calls on permuted / censored-value-changed samples —
everything handed to the optimiser and the returned object compared bit for bit; (3) malformed calls — exception
class vs the Lean validation table; (4) real fits in a process pool — outcome class, constraints, support,
bitwise invariance with equal seeds."""
import math

import numpy as np

import common as C
import fit_common as F
from corr_C10 import Collector, gen_policy, side_flags

INF = float("inf")


# ------------------------------------------------------------------------------------------------ variants

def permuted(rng, case):
    ys = list(case["ys"])
    rng.shuffle(ys)
    return dict(case, ys=ys)


def censored_changed(rng, case):
    """replace every censored observation by another value on the same side of the limits"""
    lo, hi = F.uh(case["limits"][0]), F.uh(case["limits"][1])
    out = []
    for h in case["ys"]:
        y = F.uh(h)
        if y <= lo:
            y2 = lo - rng.choice([0.0, 0.5, 1.0, 3.0, 1e3])
        elif y > hi:
            y2 = hi + rng.choice([0.25, 1.0, 2.0, 1e3])
        else:
            out.append(h)
            continue
        if case["dtype"] == "int64":
            y2 = float(math.floor(y2)) if y <= lo else float(math.floor(y2) + 1)
        elif case["dtype"] == "float32":
            y2 = float(np.float32(y2))
            if y <= lo and not y2 <= lo:
                y2 = float(np.nextafter(np.float32(y2), np.float32(-INF)))
            if y > hi and not y2 > hi:
                y2 = float(np.nextafter(np.float32(y2), np.float32(INF)))
        out.append(F.hx(y2))
    return dict(case, ys=out)


def same_calls(a, b):
    """bitwise comparison of everything the two runs handed to the optimiser"""
    ca, cb = a.get("calls", []), b.get("calls", [])
    if len(ca) != len(cb):
        return "number of optimiser calls"
    for k, (x, y) in enumerate(zip(ca, cb)):
        if x["bounds"] != y["bounds"] and not all(F.feq(p[0], q[0]) and F.feq(p[1], q[1]) for p, q in zip(x["bounds"], y["bounds"])):
            return f"bounds of call {k}"
        if x["integrality"] != y["integrality"]:
            return f"integrality of call {k}"
        if x["init_shape"] != y["init_shape"] or (x["init"] is not None and y["init"] is not None and any(
                not F.feq(u, v) for r, s in zip(x["init"], y["init"]) for u, v in zip(r, s))):
            return f"initial population of call {k}"
        for u, v in zip(x["f_code"], y["f_code"]):
            if not (u == v or (isinstance(u, float) and isinstance(v, float) and u != u and v != v)):
                return f"objective values of call {k}"
    return None


def same_outcome(a, b):
    if a["outcome"] != b["outcome"]:
        return False
    if a["outcome"] == "exc":
        return a["exc"]["cls"] == b["exc"]["cls"]
    return all(F.feq(a["result"][k], b["result"][k]) for k in "abco") and a["result"]["convex"] == b["result"]["convex"]


# ------------------------------------------------------------------------------------- property clauses

def tiny_excess(x, lo_, hi_):
    """is x outside [lo_, hi_] only by the rounding of the optimiser's own arithmetic?"""
    ex = max(lo_ - x, x - hi_)
    scale = max(1.0, abs(lo_) if math.isfinite(lo_) else 0.0, abs(hi_) if math.isfinite(hi_) else 0.0, abs(x))
    return 0 < ex <= 1e-9 * scale


def check_constraints(col, rep, case, out, inp, truthful):
    """a returned distribution satisfies every constraint exactly; noise 0 => support contains the data"""
    r = out["result"]
    cons = case["constraints"]
    real = inp.get("mode") == "real"
    f10 = "F10-returned-parameter-outside-bounds-by-optimiser-rounding"
    want_cls = "QuadraticDistribution" if case["cls"] == "quad" else "NoisyQuadraticDistribution"
    if r["cls"] != want_cls:
        col.violate(what="fit did not return an instance of its class", input=inp, observed=r["cls"], expected=want_cls)
    for k in ("a", "b", "o"):
        v = cons.get(k)
        if v is None or (k == "o" and case["cls"] == "quad"):
            continue
        if v[0] == "f" and not F.feq(r[k], F.uh(v[1])):
            col.violate(what=f"the returned {k} differs from the value it was fixed to", input=inp,
                        expected=F.uh(v[1]), observed=r[k], call="fit(...).%s" % k)
        if v[0] == "i" and not (F.uh(v[1]) <= r[k] <= F.uh(v[2])):
            key = f10 if real and tiny_excess(r[k], F.uh(v[1]), F.uh(v[2])) else None
            col.violate(what=f"the returned {k} lies outside its interval constraint" + (f" [{key}]" if key else ""), input=inp,
                        expected=[F.uh(v[1]), F.uh(v[2])], observed=r[k], call="fit(...).%s" % k,
                        **({"finding_key": key} if key else {}))
    v = cons.get("c")
    c = r["c"]
    if c != math.floor(c) or not (1 <= c <= 10):
        col.violate(what="the returned c is not an integer in 1..10", input=inp, observed=c, call="fit(...).c")
    if v is not None:
        if v[0] in ("f", "ff") and c != float(v[1]):
            col.violate(what="the returned c differs from the value it was fixed to", input=inp, expected=v[1], observed=c)
        if v[0] in ("i", "x") and not (float(v[1]) <= c <= float(v[2])):
            col.violate(what="the returned c lies outside its interval constraint", input=inp, expected=v[1:3], observed=c)
    convexs = F.convexs_of(case)
    if r["convex"] not in convexs:
        col.violate(what="the returned convex is not in the allowed set", input=inp, observed=r["convex"], expected=convexs)
        return
    if not (r["o"] == 0.0 and (case["cls"] == "quad" or truthful)):
        return
    # ---- noise 0: the support contains the uncensored observations and reaches the limits with censored mass
    n, n_lower, n_upper, obs, lo, hi = F.observed_part(case)
    rep.case(("support", case["cls"], tuple(case["ys"]), tuple(case["limits"]), repr(case["constraints"])))
    # explicit predicates for the finding keys (rounded values; box ends a-, b+ of the returned shape's pass)
    on_lo_end = on_hi_end = f6b = f6c = f11 = False
    sp = None
    if "passes" in out and convexs.index(r["convex"]) < len(out["passes"]):
        sp = out["passes"][convexs.index(r["convex"])]
    if sp is not None and "error" not in sp and sp["pinned"]:
        dec = out["decimals"]
        obs_r = [F.rnd(y, dec) for y in obs]
        elo_r, ehi_r = F.rnd(sp["edge"][0], dec), F.rnd(sp["edge"][1], dec)
        on_lo_end = any(y == elo_r for y in obs_r)
        on_hi_end = any(y == ehi_r for y in obs_r)
        f6b = n_lower > 0 and F.rnd(lo, dec) == elo_r
        f6c = n_upper > 0 and F.rnd(hi, dec) == ehi_r
        f11 = case["cls"] == "noisy" and any(y < elo_r or y > ehi_r for y in obs_r)
    f9 = "F9-noisy-noise0-observation-on-box-end-support-excludes-it"
    bad = [float(y) for y in obs if not (r["a"] <= float(y) <= r["b"])]
    if bad:
        if real and all(tiny_excess(y, r["a"], r["b"]) for y in bad):
            key = f10
        elif f11:
            key = "F11-noisy-noise-pinned-by-data-observations-outside-support-hull"
        elif case["cls"] == "noisy" and ((on_lo_end and any(y < r["a"] for y in bad)) or (on_hi_end and any(y > r["b"] for y in bad))) \
                and not any((y < r["a"] and not on_lo_end) or (y > r["b"] and not on_hi_end) for y in bad):
            key = f9
        elif f6b and all(y < r["a"] for y in bad):
            key = "F6b-lower-limit-equals-lower-support-edge"
        elif f6c and all(y > r["b"] for y in bad):
            key = "F6c-upper-limit-equals-upper-support-edge"
        else:
            key = None
        col.violate(what="noise 0 but the support [a, b] does not contain an uncensored observation" + (f" [{key}]" if key else ""),
                    input=inp, observed=dict(a=r["a"], b=r["b"]), outside=bad[:3], call="fit(...).a/.b",
                    **({"finding_key": key} if key else {}))
    if n_lower > 0 and not r["a"] <= lo:
        key = f10 if real and tiny_excess(lo, r["a"], INF) else "F6b-lower-limit-equals-lower-support-edge" if f6b else None
        col.violate(what="noise 0 but the support does not reach the lower limit below which observations were censored"
                         + (f" [{key}]" if key else ""), input=inp, observed=r["a"], expected=f"<= {lo}",
                    **({"finding_key": key} if key else {}))
    if n_upper > 0 and not r["b"] >= hi:
        key = f10 if real and tiny_excess(hi, -INF, r["b"]) else "F6c-upper-limit-equals-upper-support-edge" if f6c else None
        col.violate(what="noise 0 but the support does not reach the upper limit above which observations were censored"
                         + (f" [{key}]" if key else ""), input=inp, observed=r["b"], expected=f">= {hi}",
                    **({"finding_key": key} if key else {}))


def check_total(col, rep, case, out, inp, m):
    """valid call => instance, ValueError or OptimizationError, nothing leaked from the optimiser.
    Returns True when the outcome conforms."""
    if out["outcome"] == "ok":
        return True
    e = out["exc"]
    conform = (e["cls"] in ("ValueError", "OptimizationError") or
               ("ValueError" in e["mro"] and e["cls"] != "LeakedOptimizerError")) and not e["leaked"]
    if conform:
        return True
    mflag = dict(buckets_lt_2=False)
    if m is not None and m["plan"]["pre"] == "ok":
        for p in m["plan"]["passes"]:
            b = p.get("buckets")
            if b is not None and len(b["zs"]) < 3:
                mflag["buckets_lt_2"] = True
    key = F.finding_key_for(case, out, mflag)
    col.violate(what=f"a valid call to fit failed with {e['cls']}" + (" leaked from the optimiser" if e["leaked"] else "")
                     + f": {e['msg'][:90]}" + (f" [{key}]" if key else ""),
                input=inp, expected="an instance, ValueError or OptimizationError", observed=e,
                call=f"{'Noisy' if case['cls'] == 'noisy' else ''}QuadraticDistribution.fit",
                **({"finding_key": key} if key else {}))
    return False


# ------------------------------------------------------------------------------------------- malformed stream

BASE_YS = [0.1, 0.4, 0.5, 0.7, 0.9]


def _num_obj(spec):
    """spec -> (python object, descriptor tokens)"""
    kind = spec[0]
    nanf = float("nan")
    if kind == "s":          # real scalar
        return spec[1], ["s", "nan" if spec[1] != spec[1] else C.fhex(spec[1])]
    if kind == "p":          # real pair
        return (spec[1], spec[2]), ["p"] + ["nan" if v != v else C.fhex(v) for v in spec[1:3]]
    if kind == "plist":      # pair given as a list / array: same meaning
        return [spec[1], spec[2]], ["p", C.fhex(spec[1]), C.fhex(spec[2])]
    if kind == "parr":
        return np.array([spec[1], spec[2]]), ["p", C.fhex(spec[1]), C.fhex(spec[2])]
    if kind == "triple":
        return (1.0, 2.0, 3.0), ["B"]
    if kind == "2d":
        return [[1.0, 2.0]], ["B"]
    if kind == "empty":
        return [], ["B"]
    if kind == "cplx":
        return 1j, ["R"]
    if kind == "cplxpair":
        return (1j, 2.0), ["R"]
    raise ValueError(kind)


def _convex_obj(spec):
    kind = spec[0]
    table = {
        "T": (True, (1, 0, 0, 1, 0)), "F": (False, (1, 0, 0, 1, 0)),
        "TF": ([True, False], (0, 1, 2, 1, 0)), "Tl": ([True], (0, 1, 1, 1, 0)),
        "int": (1, (1, 0, 0, 0, 0)), "float": (0.5, (1, 0, 0, 0, 0)), "ints": ([1, 0], (0, 1, 2, 0, 0)),
        "empty": ([], (0, 1, 0, 0, 0)), "dup": ([True, True], (0, 1, 2, 1, 1)), "dup3": ([True, False, True], (0, 1, 3, 1, 1)),
        "2d": ([[True, False]], (0, 2, 1, 1, 0)),
    }
    obj, d = table[kind]
    return obj, ["v"] + [str(x) for x in d]


def build_malformed(spec):
    """spec (JSON-able) -> (cls, ys, limits, constraints(dict, ordered), validate-request tokens)"""
    import opda.parametric as P
    cls = P.QuadraticDistribution if spec["cls"] == "quad" else P.NoisyQuadraticDistribution
    ys_kind, lim_kind = spec["ys"], spec["limits"]
    nan = float("nan")
    ys, yd = {
        "ok": (list(BASE_YS), (1, 5, 1)), "2d": ([[0.1, 0.2], [0.3, 0.4]], (2, 2, 1)), "0d": (0.5, (0, 0, 1)),
        "empty": ([], (1, 0, 1)), "nan": ([0.1, nan, 0.3, 0.5], (1, 4, 0)), "inf": ([0.1, INF, 0.3, 0.5], (1, 4, 0)),
        "int": ([1, 2, 3, 5], (1, 4, 1)),
    }[ys_kind]
    limits, ld = {
        "ok": ((-INF, INF), (1, 2, 1, 0, 1)), "fin": ((0.2, 0.8), (1, 2, 1, 0, 1)), "3": ((0.0, 1.0, 2.0), (1, 3, 1, 0, 1)),
        "2d": ([[0.0, 1.0]], (2, 1, 1, 0, 1)), "0d": (1.0, (0, 0, 1, 0, 1)), "cplx": ((1j, 2.0), (1, 2, 0, 0, 1)),
        "nan": ((nan, 1.0), (1, 2, 1, 1, 0)), "rev": ((1.0, 0.0), (1, 2, 1, 0, 0)), "eq": ((1.0, 1.0), (1, 2, 1, 0, 0)),
        "list": ([0.2, 0.8], (1, 2, 1, 0, 1)),
    }[lim_kind]
    cons, items = {}, []
    for key, cs in spec["items"]:
        if key == "convex":
            obj, toks = _convex_obj(cs)
            items.append(toks)
        elif key in ("a", "b", "c", "o"):
            obj, toks = _num_obj(cs)
            items.append(["k", key] + toks)
        else:
            obj, toks = 1.0, ["o"]
            items.append(toks)
        cons[key] = obj
    toks = ["q" if spec["cls"] == "quad" else "n"] + [str(x) for x in yd] + [str(x) for x in ld] + [str(len(items))]
    for it in items:
        toks += it
    return cls, ys, limits, cons, " ".join(toks)


def gen_malformed(rng, k):
    bad_num = [["triple"], ["2d"], ["empty"], ["cplx"], ["cplxpair"], ["s", float("nan")], ["p", float("nan"), 1.0],
               ["p", 0.0, float("nan")], ["p", 2.0, 1.0]]
    bad_c = [["s", 2.5], ["p", 1.5, 3.0], ["p", 1.0, 3.5], ["s", 0.0], ["s", 11.0], ["p", 11.0, 12.0], ["p", -3.0, 0.0],
             ["s", INF], ["p", 5.0, 2.0]]
    bad_o = [["s", -0.1], ["p", -0.1, 1.0], ["p", -2.0, -1.0]]
    ok_num = {"a": [["s", 0.0], ["p", -1.0, 0.1], ["plist", -1.0, 0.1], ["parr", -1.0, 0.1], ["p", -INF, 0.0]],
              "b": [["s", 1.0], ["p", 0.9, 2.0], ["plist", 0.9, 2.0], ["p", 1.0, INF]],
              "c": [["s", 2.0], ["p", 1.0, 3.0], ["p", 0.0, 12.0], ["p", 10.0, 40.0], ["s", 10.0], ["s", 1.0]],
              "o": [["s", 0.0], ["s", 0.05], ["p", 0.0, 0.1], ["p", 0.0, 0.0]]}
    bad_cv = [["int"], ["float"], ["ints"], ["empty"], ["dup"], ["dup3"], ["2d"]]
    ok_cv = [["T"], ["F"], ["TF"], ["Tl"]]
    specs = []
    while len(specs) < k:
        cls = rng.choice(["quad", "noisy"])
        spec = dict(cls=cls, ys="ok", limits="ok", items=[])
        where = rng.choice(["ys", "limits", "cons", "cons", "cons", "cons2", "cons2", "mix", "allok"])
        if where == "ys":
            spec["ys"] = rng.choice(["2d", "0d", "empty", "nan", "inf"])
        elif where == "limits":
            spec["limits"] = rng.choice(["3", "2d", "0d", "cplx", "nan", "rev", "eq"])
        elif where == "mix":
            spec["ys"] = rng.choice(["ok", "nan", "2d"])
            spec["limits"] = rng.choice(["ok", "rev", "cplx", "3"])
        keys = ["a", "b", "c", "o", "convex", "d"]
        rng.shuffle(keys)
        n_items = {"cons": 1, "cons2": rng.choice([2, 3]), "mix": rng.choice([0, 1, 2]), "allok": rng.choice([1, 2, 3])}.get(where, rng.choice([0, 1]))
        for key in keys[:n_items]:
            make_bad = where in ("cons", "cons2", "mix") and rng.random() < 0.7
            if key == "d":
                if where == "allok":
                    continue
                spec["items"].append([key, ["s", 1.0]])
            elif key == "convex":
                spec["items"].append([key, rng.choice(bad_cv if make_bad else ok_cv)])
            else:
                pool = ok_num[key]
                if make_bad:
                    pool = bad_num + (bad_c if key == "c" else bad_o if key == "o" else [])
                spec["items"].append([key, rng.choice(pool)])
        if where == "allok":
            spec["ys"] = rng.choice(["ok", "int"])
            spec["limits"] = rng.choice(["ok", "fin", "list"])
            spec["items"] = [it for it in spec["items"] if not (it[0] == "o" and cls == "quad")]
        specs.append(spec)
    return specs


def malformed_worker(spec):
    import warnings
    import opda.parametric as P
    from opda import exceptions
    from scipy import optimize
    cls, ys, limits, cons, _ = build_malformed(spec)

    def stub(func, bounds, **kw):
        init = np.array(kw["init"], dtype=float)
        if init.ndim != 2 or init.shape[0] < F.SCIPY_MIN_POP:
            raise F.LeakedOptimizerError("The population supplied needs to have shape (S, len(x)), where S > 4.")
        return optimize.OptimizeResult(x=init[0], fun=float(func(init[0])))
    saved = P.optimize.differential_evolution
    P.optimize.differential_evolution = stub
    try:
        with warnings.catch_warnings(), np.errstate(all="ignore"):
            warnings.simplefilter("ignore")
            try:
                cls.fit(ys, limits=limits, constraints=cons, generator=np.random.default_rng(0))
                return dict(outcome="ok")
            except BaseException as e:  # noqa: BLE001
                name = "OptimizationError" if isinstance(e, exceptions.OptimizationError) else type(e).__name__
                return dict(outcome="exc", cls=name, msg=str(e)[:120], leaked=isinstance(e, F.LeakedOptimizerError))
    finally:
        P.optimize.differential_evolution = saved


# ------------------------------------------------------------------------------------------------- run

def gen_valid_cases(rng, n_quad, n_noisy):
    cases = list(F.degenerate_cases(rng))
    for cls, k in (("quad", n_quad), ("noisy", n_noisy)):
        made = 0
        while made < k:
            ys, dtype = F.gen_sample(rng)
            if rng.random() < 0.03:
                ys = ys[:2]                       # too short: ValueError
            lo, hi = F.gen_limits(rng, ys)
            if F.data_anchor(ys, lo, hi) is None and rng.random() < 0.5:
                continue                          # (some all-censored samples stay: ValueError)
            cons = F.gen_constraints(rng, cls, ys, lo, hi, light_c=(cls == "noisy" and rng.random() < 0.85))
            cases.append(F.make_case(cls, ys, dtype, lo, hi, cons))
            made += 1
    return cases


def support_wall_cases():
    """Deterministic members of the stubbed stream for the support clause of the noisy class: the noise pinned to 0 (scalar and
    (0, 0) interval), `a` and `b` free, and an optimiser that proposes -- and reports the code's own objective for -- a support whose lower
    end lies above an interior observation, whose upper end lies below one, or both.  The documented objective is +inf there (an
    uncensored observation has probability 0), so fit may not return such a support."""
    out = []
    samples = [([0.1, 0.35, 0.4, 0.62, 0.8, 0.95, 0.5, 0.55], "float64"),
               ([float(np.float32(v)) for v in (-3.25, -1.5, -0.75, 0.0, 0.5, 1.25, 2.0)], "float32")]
    for form in (["f", F.hx(0.0)], ["i", F.hx(0.0), F.hx(0.0)]):
        for ys, dtype in samples:
            for cv in (True, False):
                for u in ([0.6, 0.9], [0.05, 0.35], [0.55, 0.7]):
                    cons = {"o": form, "c": ["f", 2 if cv else 3], "convex": ["s", cv]}
                    case = F.make_case("noisy", ys, dtype, -INF, INF, cons)
                    fr = F.free_of(case)        # (a, b, and o when it is given as the interval (0, 0): one coordinate each, in this order)
                    nb = sum(1 for k in ("a", "b", "c", "o") if fr[k])
                    out.append((case, [dict(fun="true", u=(list(u) + [0.5] * nb)[:nb])]))
    return out


def run(seed, tier, replay=None):
    import multiprocessing
    rep = C.Report("C11", seed, tier)
    col = Collector(rep)
    rng = C.rng_for("C11", seed)
    drv = C.Driver()
    if replay is not None:
        v = replay.get("violation", replay)
        vin = v.get("input", {})
        cases, tasks, variants, real_groups, mal = [], [], [], [], []
        if "malformed_spec" in vin:
            mal = [vin["malformed_spec"]]
        elif vin.get("mode") == "real":
            base = dict(case=vin["case"], mode="real", n_theta=0, seed=0, gen_seed=vin.get("gen_seed", 0))
            var = vin.get("variant", vin["case"])
            real_groups = [dict(tasks=[base, dict(base, case=var), dict(base, case=var)])]
        else:
            cases = [vin["case"]]
            pol = vin.get("policy") or gen_policy(rng, cases[0])
            for p_ in pol:
                if isinstance(p_["fun"], str) and p_["fun"] != "true":
                    p_["fun"] = float(p_["fun"])
            tasks = [dict(case=cases[0], mode="stub", policy=pol, n_theta=2, seed=0, gen_seed=0)]
            if "variant" in vin:
                variants = [(0, "perm" if sorted(vin["variant"]["ys"]) == sorted(cases[0]["ys"]) else "cens",
                             dict(tasks[0], case=vin["variant"]))]
    else:
        n_quad, n_noisy, n_mal, n_real = (900, 150, 500, 16) if tier == "quick" else (8000, 1500, 5000, 80)
        cases = gen_valid_cases(rng, n_quad, n_noisy)
        tasks = [dict(case=c, mode="stub", policy=gen_policy(rng, c), n_theta=2, seed=i, gen_seed=i)
                 for i, c in enumerate(cases)]
        for c, pol in support_wall_cases():
            rep.count("stratum=noisy_noise_pinned_to_0:optimiser_proposes_a_support_excluding_an_observation")
            cases.append(c)
            tasks.append(dict(case=c, mode="stub", policy=pol, n_theta=2, seed=len(tasks), gen_seed=len(tasks)))
        # variants for the invariance clauses (quad: most; noisy: a share, they are expensive)
        variants = []
        for i, t in enumerate(tasks):
            share = 0.55 if t["case"]["cls"] == "quad" else 0.35
            if rng.random() < share:
                variants.append((i, "perm", dict(t, case=permuted(rng, t["case"]))))
                variants.append((i, "cens", dict(t, case=censored_changed(rng, t["case"]))))
        mal = gen_malformed(rng, n_mal)
        real_groups = gen_real_groups(rng, n_real)
    all_tasks = tasks + [v[2] for v in variants] + [t for g in real_groups for t in g["tasks"]]
    outs_all = F.run_pool(all_tasks)
    for o in outs_all:
        if "harness_error" in o:
            raise RuntimeError("worker failed: " + o["harness_error"])
    outs = outs_all[:len(tasks)]
    vouts = outs_all[len(tasks):len(tasks) + len(variants)]
    routs = outs_all[len(tasks) + len(variants):]
    M = F.model_eval(drv, cases, outs, rep)
    rbase = [g["tasks"][0]["case"] for g in real_groups]
    RM = F.model_eval(drv, rbase, [routs[3 * k] for k in range(len(real_groups))], rep) if real_groups else []

    # ---------------- stream 1: valid calls, stubbed optimiser
    for ci, (case, task, out, m) in enumerate(zip(cases, tasks, outs, M)):
        pol = [dict(p, fun=(p["fun"] if isinstance(p["fun"], str) else C.jsonable(p["fun"]))) for p in task["policy"]] \
            if task.get("policy") else None
        inp = dict(case=case, policy=pol, mode="stub")
        rep.count("class=" + case["cls"])
        rep.count("dtype=" + case["dtype"])
        if "spec_error" in out:
            raise RuntimeError("spec side failed: " + out["spec_error"])
        s = out["summary"]
        rep.count("limits=" + ("none" if s["n_lower"] == 0 and s["n_upper"] == 0 else "left" if s["n_upper"] == 0
                               else "right" if s["n_lower"] == 0 else "both"))
        rep.case(("total", ci), sample=dict(op="outcome", case=case, outcome=out.get("exc", out.get("result"))))
        conform = check_total(col, rep, case, out, inp, m)
        rep.count("outcome=" + (out["outcome"] if out["outcome"] == "ok" else out["exc"]["cls"]))
        # correspondence with the decision model
        if s["n"] < 3 or s["n_obs"] == 0:
            pred = ("exc", "ValueError")
        elif m is None:
            pred = None
        else:
            if not F.check_summary(rep, case, out, m):
                continue
            pred = F.model_prediction(case, m)
        if pred is None:
            rep.skip("outcome_not_modelled")
        elif pred[0] == "exc":
            rep.count("model_outcome=" + pred[1])
            rep.case(("outcome-class", ci))
            if pred[1] in F.CONFORMING:
                if out["outcome"] != "exc" or out["exc"]["cls"] != pred[1]:
                    rep.disagree(op="outcome", note="exception class differs from the decision model's", input=inp,
                                 model=pred[1], observed=out.get("exc", out.get("result")))
            else:
                # the model mirrors a defect of the unchanged code (theorems ks_index_defined_iff,
                # population_below_scipy_minimum_iff, precheck_raises_value_error): the code either shows it
                # (reported above as a violation of the property) or has been repaired (conforming outcome)
                same = out["outcome"] == "exc" and out["exc"]["cls"] == F.MODEL_DEFECT_CLASSES[pred[1]]
                if not same and not conform:
                    rep.disagree(op="outcome", note="neither the modelled defect nor a conforming outcome", input=inp,
                                 model=pred[1], observed=out.get("exc"))
                rep.count("modelled_defect_" + ("reproduced" if same else "repaired"))
        else:
            rep.count("model_outcome=ok")
            rep.case(("outcome-class", ci))
            if out["outcome"] != "ok":
                if conform and out["exc"]["cls"] == "ValueError" and "less than or equal to b" in out["exc"]["msg"]:
                    rep.skip("stub_returned_a_vector_that_is_no_distribution")
                elif conform and F.spec_infeasible(out):
                    # outside the hypotheses of the model's theorems the documented objective is infinite for a
                    # whole pass: a conforming exception is what the documentation implies (a repaired tree)
                    rep.count("conforming_exception_where_the_documented_objective_is_infinite")
                else:
                    rep.disagree(op="outcome", note="the decision model predicts a returned instance", input=inp,
                                 model="ok", observed=out["exc"])
            else:
                sel, r = pred[1], out["result"]
                keys = "abc" if case["cls"] == "quad" else "abco"
                nb0_outside = m["plan"]["nb"] == 0 and any(
                    "error" not in sp_ and not side_flags(case, out, sp_, None)["hyps"] for sp_ in out.get("passes", []))
                if nb0_outside:
                    # no optimiser call and the model's loss is not the documented one here (see C10): not compared
                    rep.skip("selection_without_optimiser_outside_the_theorem_hypotheses")
                elif any(not F.feq(r[k], sel[k]) for k in keys) or r["convex"] != F.convexs_of(case)[sel["idx"]]:
                    # which run is returned is C10's clause, not C11's: recorded, not judged here
                    rep.count("returned_parameters_differ_from_model_selection(decided_by_C10)")
        if out["outcome"] == "ok":
            truthful = all(p["fun"] == "true" for p in (task.get("policy") or []))
            rep.case(("constraints", ci))
            check_constraints(col, rep, case, out, inp, truthful)

    # ---------------- stream 2: invariance of everything handed to the optimiser (stub) and of the result
    for (i, kind, vt), vo in zip(variants, vouts):
        base = outs[i]
        what = "a permutation of the sample" if kind == "perm" else "a change of censored observations on the same side of the limits"
        rep.case(("invariance", kind, i), sample=dict(op="invariance-" + kind, case=cases[i], variant_ys=vt["case"]["ys"]))
        rep.count("invariance=" + kind)
        d = same_calls(base, vo)
        inp = dict(case=cases[i], variant=vt["case"], policy=None, mode="stub")
        if d is not None:
            col.violate(what=f"{what} changes what fit hands to the optimiser ({d})", input=inp,
                        call="fit -> differential_evolution(...)")
        elif not same_outcome(base, vo):
            col.violate(what=f"{what} changes the result of fit with an identical optimiser", input=inp,
                        expected=base.get("result", base.get("exc")), observed=vo.get("result", vo.get("exc")))

    # ---------------- stream 3: malformed calls vs the validation table
    if mal:
        ctx = multiprocessing.get_context("fork")
        with ctx.Pool(min(16, multiprocessing.cpu_count())) as pool:
            mouts = pool.map(malformed_worker, mal, chunksize=8)
        reqs = [("fit.validate", build_malformed(sp)[4]) for sp in mal]
        for sp, mo, r in zip(mal, mouts, drv.run(reqs)):
            rep.count("malformed_stream")
            if r is None:
                rep.disagree(op="fit.validate", note="model rejected a well-formed descriptor", input=sp)
                continue
            rep.case(("validate", repr(sp)), sample=dict(op="validate", spec=sp, model=r[0], code=mo))
            rep.count("validate=" + r[0])
            if r[0] == "ok":
                # nothing malformed after all: the call is valid, the property's first clause applies
                if mo["outcome"] == "exc" and (mo["cls"] not in ("ValueError", "OptimizationError") or mo["leaked"]):
                    # explicit predicate for F8: a c interval whose (float) end points survive max(1, .) / min(10, .)
                    f8 = mo["cls"] == "TypeError" and any(
                        it[0] == "c" and it[1][0] in ("p", "plist", "parr") and (it[1][1] > 1 or it[1][2] < 10)
                        for it in sp["items"])
                    key = "F8-c-interval-float-endpoints-range-TypeError" if f8 else None
                    col.violate(what=f"a valid call (unusual but documented argument forms) failed with {mo['cls']}"
                                     + (f" [{key}]" if key else ""), input=dict(malformed_spec=sp),
                                observed=mo, expected="an instance, ValueError or OptimizationError",
                                **({"finding_key": key} if key else {}))
            else:
                if mo["outcome"] != "exc" or mo["cls"] != r[0]:
                    rep.disagree(op="validate", note="exception class of a malformed call differs from the validation table",
                                 input=dict(malformed_spec=sp), model=r[0], observed=mo)

    # ---------------- stream 4: real fits
    k = 0
    for gi, g in enumerate(real_groups):
        o_base, o_perm, o_cens = routs[k], routs[k + 1], routs[k + 2]
        k += 3
        case = g["tasks"][0]["case"]
        inp = dict(case=case, mode="real", gen_seed=g["tasks"][0]["gen_seed"], policy=None)
        rep.count("real_fit=" + case["cls"], 3)
        rep.case(("real-total", g["tasks"][0]["gen_seed"]), sample=dict(op="real-fit", case=case, outcome=o_base.get("result", o_base.get("exc"))))
        ok = check_total(col, rep, case, o_base, inp, RM[gi])
        if o_base["outcome"] == "ok":
            check_constraints(col, rep, case, o_base, inp, True)
            # returned object = lowest-fun run
            calls = o_base["calls"]
            if calls:
                funs = [c["result_fun"] for c in calls]
                bi = 0
                for j, f in enumerate(funs):
                    if f < funs[bi]:
                        bi = j
                want = F._params_of(case, calls[bi]["result_x"])
                wantc = F._params_of(case, [min(max(x, b_[0]), b_[1])
                                            for x, b_ in zip(calls[bi]["result_x"], calls[bi]["bounds"])])
                r = o_base["result"]
                keys = "abc" if case["cls"] == "quad" else "abco"
                if any(not (F.feq(r[kk], want[kk]) or F.feq(r[kk], wantc[kk])) for kk in keys):
                    col.violate(what="the returned distribution is not the lowest-objective optimiser run", input=inp,
                                expected=want, observed=r)
        for kind, vo, vt in (("perm", o_perm, g["tasks"][1]), ("cens", o_cens, g["tasks"][2])):
            rep.case(("real-invariance", kind, g["tasks"][0]["gen_seed"]))
            if ok and not same_outcome(o_base, vo):
                what = "a permutation of the sample" if kind == "perm" else "a change of censored observations"
                col.violate(what=f"with the same generator seed {what} changes the fitted distribution", input=dict(inp, variant=vt["case"]),
                            expected=o_base.get("result", o_base.get("exc")), observed=vo.get("result", vo.get("exc")),
                            call="fit(ys, generator=default_rng(seed))")
    col.flush()
    return rep.result(
        rule="a case is one decided clause for one call: outcome class (valid stream, stubbed optimiser; malformed stream), "
             "constraint satisfaction of a returned object, support containment, one invariance comparison (permuted / "
             "censored-value-changed sample: every argument handed to the optimiser and the result, bitwise), one real fit "
             "(outcome, constraints, bitwise invariance with the same seed). distinct = distinct by (clause, call index).",
        extra=dict(driver_lines=drv.lines))


def gen_real_groups(rng, k):
    groups = []
    while len(groups) < k:
        cls = "quad" if len(groups) % 4 != 3 else "noisy"
        ys, dtype = F.gen_sample(rng)
        if len(set(ys)) < 3:
            continue
        lo, hi = F.gen_limits(rng, ys)
        if F.data_anchor(ys, lo, hi) is None:
            continue
        cons = F.gen_constraints(rng, cls, ys, lo, hi, light_c=(cls == "noisy"), allow_f8=False)
        if cls == "noisy":
            cons["convex"] = ["s", rng.random() < 0.5]
            if "c" not in cons or cons["c"][0] not in ("f", "ff"):
                cons["c"] = ["f", rng.randint(1, 4)]
        case = F.make_case(cls, ys, dtype, lo, hi, cons)
        gs = rng.randrange(1 << 30)
        base = dict(case=case, mode="real", n_theta=0, seed=len(groups), gen_seed=gs)
        groups.append(dict(tasks=[base, dict(base, case=permuted(rng, case)), dict(base, case=censored_changed(rng, case))]))
    return groups


if __name__ == "__main__":
    C.main(run)
