REG = dict(
    timeout=dict(quick=900, thorough=3000),
    trusted_base=[
        "IEEE-754 rounding in numpy's powers/cumsum: not modelled; measured against the property's 1e-9*max|obs|",
        "real exponents: the weights F_j^n are evaluated with mpmath (50 digits) on the model's exact rational levels",
        "the quantile level q^(1/n) / 1-(1-q)^(1/n) is computed by the harness in numpy arithmetic with the specified formula",
    ],
    assumptions=["u/v/naive curves: finite unweighted samples", "quantile levels within 1e-12 of a cdf level are excluded (as the property states)"],
)
TEXT = dict(
    level="Universal Lean theorems on the executable model: F^n is the law of the max of n draws (finite product measure), the "
          "average-curve weights are the increments of F^n resp. 1-(1-F)^n (telescoping), the U-curve is the mean over all "
          "subsets of size min(n,N) of their best element (with the model's multiplicative binomial proved equal to Nat.choose), "
          "V weights sum to 1, the naive curve is the running best of the first min(n,N) observations and monotone in n, the "
          "quantile curve is ppf of the level and monotone in it and in n; v_tuning_curve = average_tuning_curve for every finite "
          "unweighted sample in any order, ties included, both directions (also for the very terms the driver evaluates), and for "
          "samples whose observations may be +-inf (values in Ext): the driver's v reply equals its avg reply in every case - equal "
          "finite parts when no infinite observation carries best-of-n weight, the same infinity when one does, nan on both sides "
          "when +inf and -inf both do (v_op_eq_avg_op_driver_ext; every pw non-decreasing on [0,1], in particular the driver's x^n; "
          "a kernel-checked witness shows monotonicity is needed once infinite observations are tied); the "
          "average curve is monotone in n in the direction of optimisation (Abel summation; real 0<n<=m); min/max duality of the "
          "average curve under negation, and of the quantile curve (level q against 1-q) away from ties, with a kernel-checked "
          "witness that it fails at a tie. Tied to the code by exact-rational differential execution of all "
          "five curves (integer n exact; real n with 50-digit powers of exact levels), both minimize settings, n>N, samples >1000.",
    note="Proved on the model in exact arithmetic, every clause of the property. Compared, not proved: that numpy's float sum of weight x value over "
         "samples with +-inf observations is the driver's extended-value sum (inf / nan cases, compared per sample; v == average on those "
         "samples is now a theorem about the driver's terms), real n (50-digit powers of exact levels), float rounding at the property's "
         "1e-9*max|obs|.",
)
