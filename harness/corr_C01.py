"""C01: evaluation of the property on the code's own bands.

By the theorem `band_contains_iff_box` (OpdaProofs/Props/C01.lean) the band contains every continuous F simultaneously
iff L_i <= F(Y_(i)) <= U_{i-1} for all i, and F(Y_(i)) are uniform order statistics; so the coverage is the rectangle
probability P[L_i <= U_(i) <= U_{i-1}], which the driver evaluates *exactly in Q* on the level tables read off the
returned distributions through their public cdf, twice: by the cell-by-cell dynamic programme `band.rect`
(OpdaModel/RectProb.lean; proved in Lean to be that probability) and by Steck's determinant `band.steck` (identity cited);
the two rationals must be equal on every table."""
import copy
import os
import warnings
from fractions import Fraction as Fr

import numpy as np

import common as C

INF = float("inf")


def read_levels(lo, hi, n, finite_bounds):
    """level tables from the public cdf of the bands built on the sample 1..n (a=0,b=n+1 or infinite bounds):
    L_i = lo.cdf(i), U_i = hi.cdf(i) for i=1..n, and L_0 / U_0 from a point between a and the first observation."""
    pts = np.array([0.5] + [float(i) for i in range(1, n + 1)])
    return lo.cdf(pts), hi.cdf(pts)


BIG_NS = [6000, 8000, 12000, 20000]
BIG_KS_CONFS = [0.3, 0.5, 0.9, 0.95]


def large_n_plan(rng, brng, tier):
    """(n, method, confidence, generator for the sample order / bounds) of the large-n stratum.

    First the stratum as it was (n up to 3000 in the quick tier, confidences 0.5, 0.9 and one of 0.99 / 0.999 / random).  Then,
    in EVERY tier, sample sizes in the thousands and tens of thousands -- 5000, one (quick) or all (thorough) of 6000, 8000,
    12000, 20000, and log-uniform random n in 3001..20000 -- at small as well as conventional confidences (0.3, 0.5, 0.9, 0.95 and
    a random one for ks [quick: 0.3, 0.95 and a random one at the random n]; 0.5 and/or 0.95 for dkw, whose eps is a closed form): an approximation of the Kolmogorov-Smirnov quantile
    that is tuned to the upper tail is 100 x further off at confidence 0.3 than at 0.95.  The oracle costs 0.1-0.9 s per case
    there (measured), so the quick tier takes one n of the list per run, chosen by the seed."""
    ns = [101, 150, 1000, 1001, 3000] if tier == "quick" else [101, 150, 400, 1000, 1001, 2000, 3000, 5000, 20000]
    for n in ns:
        for method in ("dkw", "ks"):
            for conf in [0.5, 0.9, rng.choice([0.99, 0.999, round(0.05 + 0.9 * rng.random(), 3)])]:
                yield n, method, conf, rng, "as_before"
    big = [5000] + ([brng.choice(BIG_NS)] if tier == "quick" else list(BIG_NS))
    rnd = [int(round(3001 * (20000 / 3001) ** brng.random())) for _ in range(1 if tier == "quick" else 4)]
    for n in big + rnd:
        confs = BIG_KS_CONFS if (n in big or tier != "quick") else [0.3, 0.95]
        for conf in confs + [round(0.05 + 0.9 * brng.random(), 3)]:
            yield n, "ks", conf, brng, "thousands"
        for conf in ((0.5, 0.95) if tier != "quick" else (brng.choice([0.5, 0.95]),)):
            yield n, "dkw", conf, brng, "thousands"
    # small confidences below the thousands as well (cheap there: the matrix of the oracle has order ~ 2 n eps)
    for n in ([150, 1000, 3000] if tier == "quick" else [101, 150, 400, 1000, 2000, 3000]):
        for conf in (0.3, round(0.02 + 0.4 * brng.random(), 3)):
            yield n, "ks", conf, brng, "small_confidence"


VERY_LARGE_NS = [100_001, 150_000, 300_000, 1_000_000]
PG_VALIDATION_TOL = 1e-7


def very_large_n_part(rep, tier, ED, stats, vrng, pg_checks):
    """dkw / ks for n in the hundreds of thousands and at a million (the property holds "for every sample size n >= 1", ks to 1e-5 for
    n > 100): one n of VERY_LARGE_NS per run in the quick tier (chosen by the seed), all of them and a log-uniform random one in the
    thorough tier, plus n = 100 000; confidences 0.5, 0.95 and a random one.  The matrix algorithm is out of reach there (O(n^2 eps^2 log n));
    P[D_n <= eps] is evaluated by the Pelz-Good expansion (ks_oracle.ks_cdf_pelz_good, truncation error ~ 0.05/n^2), which is first
    validated against the matrix algorithm on the eps values of this very run at n >= 5000 (`pg_checks`, incl. n = 5000 and n = 20000):
    if the two differ by more than 1e-7 anywhere the stratum is skipped (counted), never judged."""
    import ks_oracle
    have = {n for n, _e, _d in pg_checks}
    for n in (5000, 20000):
        if n not in have:
            eps = 0.8276 / n ** 0.5          # about the median of D_n
            pg_checks.append((n, eps, abs(ks_oracle.ks_cdf(n, eps) - ks_oracle.ks_cdf_pelz_good(n, eps))))
    worst_dev = max(d for _n, _e, d in pg_checks)
    rep.count("very_large_n:pelz_good_vs_matrix_algorithm_comparisons(n>=5000)", len(pg_checks))
    rep.notes.append("Pelz-Good expansion vs Durbin matrix algorithm at n in %s: largest difference %.2e (allowed %.0e)"
                     % (sorted({n for n, _e, _d in pg_checks}), worst_dev, PG_VALIDATION_TOL))
    ns = [vrng.choice(VERY_LARGE_NS)] if tier == "quick" else VERY_LARGE_NS + [int(round(100_001 * 20 ** vrng.random()))]
    for n in [100_000] + ns:
        g = np.random.default_rng(vrng.getrandbits(63))
        ys = g.permutation(n).astype(float) + 1.0
        for method, conf in [("ks", 0.5), ("ks", 0.95), ("ks", round(0.05 + 0.9 * vrng.random(), 3)), ("dkw", vrng.choice([0.5, 0.95]))]:
            finite = vrng.random() < 0.5
            a, b = (0.0, float(n + 1)) if finite else (-INF, INF)
            as_list = n <= 300_000 and vrng.random() < 0.5
            inp = dict(n=n, confidence=conf, method=method, a=a, b=b, sample_container="list" if as_list else "float64 ndarray")
            if not worst_dev <= PG_VALIDATION_TOL:
                rep.skip("very_large_n:pelz_good_expansion_not_validated_against_the_matrix_algorithm_to_1e-7")
                continue
            rep.count("very_large_n:method=" + method)
            rep.count("very_large_n:n=%d" % n if n in VERY_LARGE_NS or n == 100_000 else "very_large_n:n=random in 100001..2000020")
            rep.count("very_large_n:confidence=%s" % ("<0.5" if conf < 0.5 else "0.5-0.9" if conf <= 0.9 else ">0.9"))
            call = (f"lo, _, hi = EmpiricalDistribution.confidence_bands(np.arange(1., {n} + 1), {conf!r}, a={a!r}, b={b!r}, method={method!r}, "
                    f"n_jobs=1)  # the sample in any order; levels lo.cdf(i), hi.cdf(i), i = 1..{n}")
            try:
                with warnings.catch_warnings():
                    warnings.simplefilter("ignore")
                    lo, pt, hi = ED.confidence_bands(ys.tolist() if as_list else ys, conf, a=a, b=b, method=method, n_jobs=1)
            except Exception as e:  # noqa: BLE001
                rep.violate(what="confidence_bands raised on a valid input", error=repr(e), input=inp, call=call)
                continue
            pts = np.concatenate([[0.5], np.arange(1, n + 1, dtype=float)])
            L, U = lo.cdf(pts), hi.cdf(pts)
            idx = np.arange(1, n + 1)
            alpha, beta = np.asarray(L[1:], dtype=float), np.asarray(U[:-1], dtype=float)
            cand = [float(np.max(idx / n - alpha)), float(np.max(beta - (idx - 1) / n))]
            eps = max(cand)
            want_a, want_b = np.clip(idx / n - eps, 0, 1), np.clip((idx - 1) / n + eps, 0, 1)
            rep.case(("very_large_n", method, n, conf, a), sample=dict(inp, eps=eps))
            if not (np.all(np.abs(alpha - want_a) <= 1e-12) and np.all(np.abs(beta - want_b) <= 1e-12)):
                rep.violate(what="dkw/ks band levels are not i/n -+ eps clipped to [0,1] for a single eps", input=inp,
                            observed=dict(eps_lower=cand[0], eps_upper=cand[1]), call=call)
                continue
            cov = ks_oracle.ks_cdf_pelz_good(n, eps)
            ref = float(stats.kstwo(n).cdf(eps))
            if abs(cov - ref) > 1e-6:
                rep.skip("very_large_n_oracles_disagree(Pelz-Good expansion vs scipy.kstwo.cdf)>1e-6")
                continue
            tol = 1e-5
            ok = (cov >= conf - 1e-9) if method == "dkw" else (abs(cov - conf) <= tol + 1e-7)
            if not ok:
                rep.violate(what="simultaneous coverage of the band, P[D_n <= eps] for the eps read off the returned levels (Pelz-Good expansion "
                                 "K0 + K1/n^(1/2) + K2/n + K3/n^(3/2) of the Kolmogorov-Smirnov distribution, validated in this run against the "
                                 "Durbin matrix algorithm to 1e-7), is not the nominal one",
                            input=inp, expected=(f">= {conf}" if method == "dkw" else f"= {conf} +- {tol}"), observed=cov, eps=eps,
                            limiting_law_quantile_over_sqrt_n=float(stats.kstwobign.ppf(conf)) / n ** 0.5, call=call)


def large_n_part(rep, rng, tier, ED, stats, brng, pg_checks=None):
    """dkw / ks beyond the reach of the exact rational evaluation: n in the hundreds, thousands and tens of thousands"""
    import ks_oracle
    for n, method, conf, r, stratum in large_n_plan(rng, brng, tier):
        ys = [float(i) for i in range(1, n + 1)]
        r.shuffle(ys)
        finite = r.random() < 0.5
        a, b = (0.0, float(n + 1)) if finite else (-INF, INF)
        inp = dict(n=n, confidence=conf, method=method, a=a, b=b)
        rep.count("large_n:method=" + method)
        rep.count("large_n:n=%s" % ("101-3000" if n <= 3000 else "3001-4999" if n < 5000 else "5000" if n == 5000 else "5001-20000"))
        rep.count("large_n:confidence=%s" % ("<0.5" if conf < 0.5 else "0.5-0.9" if conf <= 0.9 else ">0.9"))
        rep.count("large_n:stratum=" + stratum)
        try:
            with warnings.catch_warnings():
                warnings.simplefilter("ignore")
                lo, pt, hi = ED.confidence_bands(ys, conf, a=a, b=b, method=method, n_jobs=1)
        except Exception as e:  # noqa: BLE001
            rep.violate(what="confidence_bands raised on a valid input", error=repr(e), input=inp, call="EmpiricalDistribution.confidence_bands")
            continue
        L, U = read_levels(lo, hi, n, finite)
        idx = np.arange(1, n + 1)
        alpha, beta = np.asarray(L[1:], dtype=float), np.asarray(U[:-1], dtype=float)   # L_i at Y_(i), U_{i-1} just below it
        # eps from the unclipped entries of either side
        cand = [float(np.max(idx / n - alpha)), float(np.max(beta - (idx - 1) / n))]
        eps = max(cand)
        want_a, want_b = np.clip(idx / n - eps, 0, 1), np.clip((idx - 1) / n + eps, 0, 1)
        rep.case(("large_n", method, n, conf, a), sample=dict(inp, eps=eps))
        if not (np.all(np.abs(alpha - want_a) <= 1e-12) and np.all(np.abs(beta - want_b) <= 1e-12)):
            rep.violate(what="dkw/ks band levels are not i/n -+ eps clipped to [0,1] for a single eps", input=inp, observed=dict(eps_lower=cand[0], eps_upper=cand[1]),
                        call="EmpiricalDistribution.confidence_bands")
            continue
        cov = ks_oracle.ks_cdf(n, eps)
        ref = float(stats.kstwo(n).cdf(eps))
        if pg_checks is not None and n >= 5000 and method == "ks":
            pg_checks.append((n, eps, abs(cov - ks_oracle.ks_cdf_pelz_good(n, eps))))    # validation of the expansion used beyond 10^5
        if abs(cov - ref) > 1e-6:
            rep.skip("large_n_oracles_disagree(matrix algorithm vs scipy.kstwo.cdf)>1e-6")
            continue
        tol = 1e-12 if n <= 100 else 1e-5
        ok = (cov >= conf - 1e-9) if method == "dkw" else (abs(cov - conf) <= tol + 1e-7)
        if not ok:
            rep.violate(what="simultaneous coverage of the band, P[D_n <= eps] for the eps read off the returned levels (exact Kolmogorov-"
                             "Smirnov distribution by the Durbin matrix algorithm), is not the nominal one",
                        input=inp, expected=(f">= {conf}" if method == "dkw" else f"= {conf} +- {tol}"), observed=cov, eps=eps,
                        call=f"lo, _, hi = EmpiricalDistribution.confidence_bands([float(i) for i in range(1, {n} + 1)], {conf!r}, a={a!r}, "
                             f"b={b!r}, method={method!r}, n_jobs=1)  # the sample in any order; levels lo.cdf(i), hi.cdf(i), i = 1..{n}")


def run(seed, tier, replay=None):
    from opda.nonparametric import EmpiricalDistribution as ED
    from scipy import stats
    rep = C.Report("C01", seed, tier)
    rng = rng0 = C.rng_for("C01", seed)
    drv = C.Driver()
    N_TRIALS = 100_000
    if tier == "quick":
        ns_fast = [1, 2, 3, 5, 8, 13, 20, 30, 40]
        ns_ld = [1, 2, 3, 5, 8]
        confs_ld = [0.5, 0.95, rng.choice([0.0, 1.0, 0.8, 0.99, round(rng.random(), 3)])]
    else:
        ns_fast = [1, 2, 3, 4, 5, 7, 8, 11, 13, 20, 30, 40, 60, 80]
        ns_ld = [1, 2, 3, 5, 8, 13, 20, 30]
        confs_ld = [0.0, 0.5, 0.8, 0.95, 0.99, 1.0, round(rng.random(), 3)]
    confs_fast = [0.0, 1e-12, 0.5, 0.8, 0.95, 0.99, 1 - 1e-12, 1.0, rng.random(), rng.random()]
    plan = [(m, n, c) for m in ("dkw", "ks") for n in ns_fast for c in confs_fast]
    plan += [(m, n, c) for m in ("ld_equal_tailed", "ld_highest_density") for n in ns_ld for c in confs_ld
             if not (m == "ld_highest_density" and n < 2)]
    # ---- history pairs (ld methods): the same n and a generator in the same state, first with the OTHER method / another confidence;
    # the band of the second call must still have its nominal coverage (a result may not depend on what was computed before)
    prime = {}
    for j in range(4 if tier == "quick" else 16):
        m2 = ("ld_equal_tailed", "ld_highest_density")[j % 2]
        m1 = ("ld_highest_density", "ld_equal_tailed")[j % 2] if j % 4 < 2 else m2
        n = rng.choice([2, 3, 5])
        c2 = 0.5
        c1 = c2 if m1 != m2 else rng.choice([0.9, 0.1])
        plan.append((m2, n, c2))
        prime[len(plan) - 1] = (m1, c1)
    # ---- history pairs on ONE generator object: first an ld call for another sample size (larger or smaller, either ld method), then the
    # judged call with the same generator object, which is by then in a later state.  Its band must still have the nominal coverage
    # (uniforms kept from the earlier call and re-used, a table keyed without n, ...).
    prime_same = {}
    for j in range(4 if tier == "quick" else 16):
        m2 = ("ld_equal_tailed", "ld_highest_density")[j % 2]
        m1 = rng.choice(["ld_equal_tailed", "ld_highest_density"])
        n = rng.choice([2, 3, 5])
        n1 = n + rng.choice([1, 2, 3]) if j % 4 < 3 else max(2, n - 1)
        plan.append((m2, n, 0.5))
        prime_same[len(plan) - 1] = (m1, n1, rng.choice([0.5, 0.9]))
    # ---- the n_jobs axis of the ld methods (the property's band is the one `confidence_bands` returns for EVERY n_jobs; n_jobs = 1 is
    # computed in-process, n_jobs >= 2 and the default None [= cpu count] hand the order statistics to a multiprocessing pool): worker
    # counts that do not divide n (n = 5 with 2 and 3, n = 7, 8 with 3, n = cpu count + 1 with None), that divide it, and that are
    # >= n; judged like every other ld case by the exact rectangle probability inside the Beta window.
    njobs_of = {}
    cpu = os.cpu_count() or 1
    jrng = C.rng_for("C01.ld_n_jobs", seed)        # own generator: the strata above and below are the ones they were
    nj_not_dividing = [(5, 2), (5, 3), (7, 3), (8, 3), (7, 2), (3, 2), (9, 2), (10, 3), (11, 4), (9, 4)]
    nj_dividing = [(6, 2), (6, 3), (8, 2), (4, 2), (9, 3), (8, 4)]
    nj_at_least_n = [(2, 3), (3, 3), (2, 2), (1, 2), (3, 16)]
    nj_default = [(5, None), (3, None)] + ([(cpu + 1, None)] if cpu <= 16 else [])
    if tier == "quick":
        nj_cases = nj_not_dividing[:2] + [jrng.choice(nj_not_dividing[2:4]), jrng.choice(nj_not_dividing[4:])] \
            + [jrng.choice(nj_dividing), jrng.choice(nj_at_least_n), jrng.choice(nj_default[:2])] + nj_default[2:]
    else:
        nj_cases = nj_not_dividing + nj_dividing + nj_at_least_n + nj_default
    for j, (n, nj) in enumerate(nj_cases):
        for m in (("ld_equal_tailed", "ld_highest_density") if tier != "quick" else (("ld_equal_tailed", "ld_highest_density")[j % 2],)):
            if m == "ld_highest_density" and n < 2:
                continue
            for c in ((0.5, 0.95) if tier != "quick" else (jrng.choice([0.5, 0.5, 0.9, 0.95]),)):
                plan.append((m, n, c))
                njobs_of[len(plan) - 1] = nj
    reqs, meta = [], []
    for pi, (method, n, conf) in enumerate(plan):
        nj = njobs_of.get(pi, 1)
        rng = jrng if pi in njobs_of else rng0
        ys = [float(i) for i in range(1, n + 1)]
        rng.shuffle(ys)
        finite = rng.random() < 0.5
        a, b = (0.0, float(n + 1)) if finite else (-INF, INF)
        gseed = rng.randrange(2 ** 31)
        inp = dict(n=n, confidence=conf, method=method, a=a, b=b, generator_seed=gseed, n_jobs=nj)
        if pi in njobs_of:
            resolved = cpu if nj is None else nj
            inp["n_jobs_resolved"] = resolved
            rep.count("ld_n_jobs=%s" % nj)
            rep.count("ld_n_jobs:workers %s" % ("do not divide n (n > workers)" if n > resolved and n % resolved else
                                                 "divide n" if n >= resolved else "exceed n"))
        if pi in prime:
            m1, c1 = prime[pi]
            inp["preceded_by"] = dict(method=m1, confidence=c1, generator_seed=gseed, note="same sample, a generator in the same state")
            rep.count("history=preceded_by_another_ld_call_with_equal_generator_state")
            try:
                with warnings.catch_warnings():
                    warnings.simplefilter("ignore")
                    ED.confidence_bands(ys, c1, a=a, b=b, method=m1, generator=np.random.default_rng(gseed), n_jobs=1)
            except Exception:  # noqa: BLE001  (judged in its own right elsewhere in the plan)
                pass
        gen = np.random.default_rng(gseed)
        if pi in prime_same:
            m1, n1, c1 = prime_same[pi]
            inp["preceded_by"] = dict(method=m1, n=n1, confidence=c1, generator_seed=gseed,
                                      note="the SAME generator object, used first for a sample of another size")
            rep.count("history=preceded_by_an_ld_call_on_the_same_generator_object(n1 %s n)" % (">" if n1 > n else "<"))
            try:
                with warnings.catch_warnings():
                    warnings.simplefilter("ignore")
                    ED.confidence_bands([float(i) for i in range(1, n1 + 1)], c1, method=m1, generator=gen, n_jobs=1)
            except Exception:  # noqa: BLE001  (judged in its own right elsewhere in the plan)
                pass
        rep.count("method=" + method)
        rep.count("bounds=" + ("finite" if finite else "infinite"))
        try:
            with warnings.catch_warnings():
                warnings.simplefilter("ignore")
                lo, pt, hi = ED.confidence_bands(ys, conf, a=a, b=b, method=method, generator=gen, n_jobs=nj)
        except Exception as e:
            rep.violate(what="confidence_bands raised on a valid input", error=repr(e), input=inp, call="EmpiricalDistribution.confidence_bands")
            continue
        inp["call"] = (f"lo, _, hi = EmpiricalDistribution.confidence_bands({ys!r}, {conf!r}, a={a!r}, b={b!r}, method={method!r}, "
                       f"generator=np.random.default_rng({gseed}), n_jobs={nj!r})  # levels lo.cdf(i), hi.cdf(i), i = 1..{n}")
        L, U = read_levels(lo, hi, n, finite)
        alpha = [float(L[i]) for i in range(1, n + 1)]        # lower level at the i-th order statistic
        beta = [float(U[i - 1]) for i in range(1, n + 1)]     # upper level just below it
        if not (all(x <= y for x, y in zip(alpha, alpha[1:])) and all(x <= y for x, y in zip(beta, beta[1:]))
                and all(0 <= x <= 1 for x in alpha + beta)):
            rep.violate(what="band levels are not non-decreasing in [0,1]", input=inp, observed=dict(lower=alpha, upper=beta))
            continue
        if not (float(L[0]) <= 0.0 and float(U[n]) >= 1.0):
            # hypotheses L_0 <= 0, 1 <= U_n of band_contains_iff_box / band_coverage_is_rect_coverage: otherwise the band excludes every
            # continuous F just above a resp. just below b, i.e. its coverage is 0
            rep.violate(what="lower band is positive below the smallest observation or upper band is below 1 at the largest one "
                             "(such a band contains no continuous CDF: coverage 0)", input=inp,
                        observed=dict(lower_below_sample=float(L[0]), upper_at_max=float(U[n])), call="EmpiricalDistribution.confidence_bands")
            continue
        reqs.append(f"{C.flist(alpha)} {C.flist(beta)}")
        meta.append((inp, alpha, beta))
    rng = rng0
    import time
    t0 = time.time()
    replies_rect = drv.run([("band.rect", a) for a in reqs])
    t_rect = time.time() - t0
    replies_steck = drv.run([("band.steck", a) for a in reqs])
    t_steck = time.time() - t0 - t_rect
    for (inp, alpha, beta), r, r_steck in zip(meta, replies_rect, replies_steck):
        if r is None or r_steck is None:
            rep.disagree(op="band.rect" if r is None else "band.steck", note="model rejected", input=inp, lower_levels=alpha, upper_levels=beta)
            continue
        cov = C.parse_ext(r[0])
        # two independent exact evaluators of the same rectangle probability: the cell-by-cell dynamic programme (proved to be the
        # volume of the event, Props/C01 rect_coverage_is_volume) and Steck's determinant (cited). They must agree as rationals.
        rep.count("evaluators=rect_dp_and_steck_determinant_compared_exactly")
        if cov != C.parse_ext(r_steck[0]):
            rep.disagree(op="band.rect vs band.steck", note="the two exact evaluators of the rectangle probability differ",
                         input=inp, lower_levels=alpha, upper_levels=beta, rect=r[0], steck=r_steck[0])
            continue
        conf, method, n = inp["confidence"], inp["method"], inp["n"]
        rep.case((method, n, conf, inp["a"]) + (() if inp["n_jobs"] == 1 else (inp["n_jobs"],)),
                 sample=dict(inp, coverage=float(cov), lower_levels=alpha[:4], upper_levels=beta[:4]))
        c = Fr(conf)
        if method == "dkw":
            ok = cov >= c - Fr(1, 10 ** 12)
            exp = f">= {conf}"
        elif method == "ks":
            tol = Fr(1, 10 ** 12) if n <= 100 else Fr(1, 10 ** 5)
            ok = abs(cov - c) <= tol
            exp = f"= {conf} +- {float(tol)}"
        else:
            # the simulated critical value np.quantile(ts, c) lies between the order statistics T_(k) and T_(k+1) of N_TRIALS draws of
            # the statistic, k = floor(c(N-1))+1 = c*N (1-based), so its coverage lies between a Beta(k, N+1-k) and a Beta(k+1, N-k)
            # variable (Props/C01: simulated_critical_value_coverage_is_beta, interpolated_critical_value_coverage_between_betas);
            # accept from the lower 5e-11 quantile of the first law to the upper 5e-11 quantile of the second
            k = conf * N_TRIALS
            lo_q = float(stats.beta.ppf(5e-11, max(k, 1.0), (N_TRIALS - k) + 1.0)) if k >= 1 else 0.0
            hi_q = float(stats.beta.ppf(1 - 5e-11, k + 1.0, max(N_TRIALS - k, 1.0))) if k < N_TRIALS else 1.0
            if conf == 1.0:
                lo_q = 1 - 3e-4
            ok = Fr(lo_q) - Fr(1, 10 ** 9) <= cov <= Fr(hi_q) + Fr(1, 10 ** 9)
            exp = f"in [{lo_q}, {hi_q}]"
        if not ok:
            rep.violate(what="simultaneous coverage of the band (exact rectangle probability of the uniform order statistics on the "
                             "code's level tables) is not the nominal one",
                        input=inp, expected=exp, observed=float(cov), lower_levels=alpha, upper_levels=beta,
                        call=inp.get("call", "EmpiricalDistribution.confidence_bands")
                        + ("" if "preceded_by" not in inp else "  # after the call described in input.preceded_by"))
    pg_checks = []
    large_n_part(rep, rng, tier, ED, stats, C.rng_for("C01.large_n.thousands", seed), pg_checks)
    very_large_n_part(rep, tier, ED, stats, C.rng_for("C01.very_large_n", seed), pg_checks)
    return rep.result(
        rule="(method, n, confidence, finite/infinite bounds): dkw/ks for n up to 40 (quick) / 80 (thorough) at confidences incl. 0, 1e-12, "
             "1-1e-12, 1; ld_* for small n at a few confidences (each call simulates 100 000 trials). The level tables are read off the "
             "returned distributions' public cdf; the coverage is evaluated exactly in Q by the driver twice (band.rect: dynamic programme over "
             "the cells between levels, proved to be the rectangle probability; band.steck: Steck's determinant, cited) and the two "
             "rationals must be equal. "
             "Large n (101..3000, 5000, one of 6000/8000/12000/20000 by seed and a random n in 3001..20000 quick; all of them "
             "thorough; ks at confidences 0.3, 0.5, 0.9, 0.95 + random there), dkw/ks: the levels must be clip(i/n -+ eps) (then, by theorem "
             "C01.dkw_ks_box_iff_sup, coverage = P[D_n <= eps]), and P[D_n <= eps] is evaluated by an independent Durbin/"
             "Marsaglia-Tsang-Wang matrix algorithm (cross-checked against scipy.stats.kstwo.cdf). ld history pairs: a call preceded "
             "by another ld call (other method or confidence) with a generator in the same state. ld n_jobs axis: n_jobs in {2, 3, 4, 16, None} "
             "with worker counts that do not divide n / divide n / exceed n (multiprocessing path), same exact judgement. Very large n "
             "(100 000, one of 100 001 / 150 000 / 300 000 / 1 000 000 by seed quick, all + a random one thorough; ks at 0.5, 0.95 + random, dkw): "
             "levels clip(i/n -+ eps), P[D_n <= eps] by the Pelz-Good expansion validated against the matrix algorithm at n >= 5000 to 1e-7.",
        extra=dict(driver_lines=drv.lines, exact_tables=len(meta), seconds_rect_dp=round(t_rect, 2), seconds_steck_determinant=round(t_steck, 2)))


if __name__ == "__main__":
    C.main(run)
