"""C01: evaluation of the property on the code's own bands.

By the theorem `band_contains_iff_box` (OpdaProofs/Props/C01.lean) the band contains every continuous F simultaneously
iff L_i <= F(Y_(i)) <= U_{i-1} for all i, and F(Y_(i)) are uniform order statistics; so the coverage is the rectangle
probability P[L_i <= U_(i) <= U_{i-1}], which the driver evaluates *exactly in Q* on the level tables read off the
returned distributions through their public cdf (Steck's determinant, identity cited)."""
import copy
import warnings
from fractions import Fraction as Fr

import numpy as np

import common as C

INF = float("inf")


def read_levels(lo, hi, n, finite_bounds):
    """level tables from the public cdf of the bands built on the sample 1..n (a=0,b=n+1 or infinite bounds):
    L_i = lo.cdf(i), U_i = hi.cdf(i) for i=1..n, and L_0 / U_0 from a point between a and the first observation."""
    pts = np.array([0.5] + [float(i) for i in range(1, n + 1)])
    return lo.cdf(pts), hi.cdf(pts)


def run(seed, tier, replay=None):
    from opda.nonparametric import EmpiricalDistribution as ED
    from scipy import stats
    rep = C.Report("C01", seed, tier)
    rng = C.rng_for("C01", seed)
    drv = C.Driver()
    N_TRIALS = 100_000
    if tier == "quick":
        ns_fast = [1, 2, 3, 5, 8, 13, 20, 30, 40]
        ns_ld = [1, 2, 3, 5, 8]
        confs_ld = [0.5, 0.95, rng.choice([0.0, 1.0, 0.8, 0.99, round(rng.random(), 3)])]
    else:
        ns_fast = [1, 2, 3, 4, 5, 7, 8, 11, 13, 20, 30, 40, 60, 80]
        ns_ld = [1, 2, 3, 5, 8, 13, 20, 30]
        confs_ld = [0.0, 0.5, 0.8, 0.95, 0.99, 1.0, round(rng.random(), 3)]
    confs_fast = [0.0, 1e-12, 0.5, 0.8, 0.95, 0.99, 1 - 1e-12, 1.0, rng.random(), rng.random()]
    plan = [(m, n, c) for m in ("dkw", "ks") for n in ns_fast for c in confs_fast]
    plan += [(m, n, c) for m in ("ld_equal_tailed", "ld_highest_density") for n in ns_ld for c in confs_ld
             if not (m == "ld_highest_density" and n < 2)]
    reqs, meta = [], []
    for method, n, conf in plan:
        ys = [float(i) for i in range(1, n + 1)]
        rng.shuffle(ys)
        finite = rng.random() < 0.5
        a, b = (0.0, float(n + 1)) if finite else (-INF, INF)
        gseed = rng.randrange(2 ** 31)
        inp = dict(n=n, confidence=conf, method=method, a=a, b=b, generator_seed=gseed)
        rep.count("method=" + method)
        rep.count("bounds=" + ("finite" if finite else "infinite"))
        try:
            with warnings.catch_warnings():
                warnings.simplefilter("ignore")
                lo, pt, hi = ED.confidence_bands(ys, conf, a=a, b=b, method=method, generator=np.random.default_rng(gseed), n_jobs=1)
        except Exception as e:
            rep.violate(what="confidence_bands raised on a valid input", error=repr(e), input=inp, call="EmpiricalDistribution.confidence_bands")
            continue
        L, U = read_levels(lo, hi, n, finite)
        alpha = [float(L[i]) for i in range(1, n + 1)]        # lower level at the i-th order statistic
        beta = [float(U[i - 1]) for i in range(1, n + 1)]     # upper level just below it
        if not (all(x <= y for x, y in zip(alpha, alpha[1:])) and all(x <= y for x, y in zip(beta, beta[1:]))
                and all(0 <= x <= 1 for x in alpha + beta)):
            rep.violate(what="band levels are not non-decreasing in [0,1]", input=inp, observed=dict(lower=alpha, upper=beta))
            continue
        reqs.append(("band.steck", f"{C.flist(alpha)} {C.flist(beta)}"))
        meta.append((inp, alpha, beta))
    for (inp, alpha, beta), r in zip(meta, drv.run(reqs)):
        if r is None:
            rep.disagree(op="band.steck", note="model rejected", input=inp)
            continue
        cov = C.parse_ext(r[0])
        conf, method, n = inp["confidence"], inp["method"], inp["n"]
        rep.case((method, n, conf, inp["a"]), sample=dict(inp, coverage=float(cov), lower_levels=alpha[:4], upper_levels=beta[:4]))
        c = Fr(conf)
        if method == "dkw":
            ok = cov >= c - Fr(1, 10 ** 12)
            exp = f">= {conf}"
        elif method == "ks":
            tol = Fr(1, 10 ** 12) if n <= 100 else Fr(1, 10 ** 5)
            ok = abs(cov - c) <= tol
            exp = f"= {conf} +- {float(tol)}"
        else:
            # the simulated critical value is an order statistic of N_TRIALS draws of the statistic, so the coverage follows
            # (about) Beta(c*N, (1-c)*N+1); accept its central 1-1e-10 interval, widened to the two neighbouring laws
            k = conf * N_TRIALS
            lo_q = float(stats.beta.ppf(5e-11, max(k, 1.0), (N_TRIALS - k) + 1.0)) if k >= 1 else 0.0
            hi_q = float(stats.beta.ppf(1 - 5e-11, k + 1.0, max(N_TRIALS - k, 1.0))) if k < N_TRIALS else 1.0
            if conf == 1.0:
                lo_q = 1 - 3e-4
            ok = Fr(lo_q) - Fr(1, 10 ** 9) <= cov <= Fr(hi_q) + Fr(1, 10 ** 9)
            exp = f"in [{lo_q}, {hi_q}]"
        if not ok:
            rep.violate(what="simultaneous coverage of the band (exact rectangle probability of the uniform order statistics on the "
                             "code's level tables) is not the nominal one",
                        input=inp, expected=exp, observed=float(cov), lower_levels=alpha, upper_levels=beta,
                        call="EmpiricalDistribution.confidence_bands")
    return rep.result(
        rule="(method, n, confidence, finite/infinite bounds): dkw/ks for n up to 40 (quick) / 80 (thorough) at confidences incl. 0, 1e-12, "
             "1-1e-12, 1; ld_* for small n at a few confidences (each call simulates 100 000 trials). The level tables are read off the "
             "returned distributions' public cdf; the coverage is evaluated exactly in Q by the driver (band.steck).",
        extra=dict(driver_lines=drv.lines))


if __name__ == "__main__":
    C.main(run)
