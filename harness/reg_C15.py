REG = dict(
    trusted_base=[
        "scipy.stats.beta ppf/cdf are NOT trusted: every returned end point / coverage is read as an exact rational and "
        "checked through the exact binomial-tail polynomial (Beta(a,b) cdf for integer a,b, theorem beta_cdf_*)",
        "the untrusted Python proposal of a level set (harness) only supplies candidate certificates; acceptance is by the "
        "Lean checker hdiCertOK (sound by hdi_certificate_sound) or by an exactly verified shorter interval (hdiWitness)",
        "IEEE-754 rounding inside the library's bisection loops is not modelled (the bracket theorems hold for arbitrary "
        "comparison outcomes)",
    ],
    assumptions=["order-statistic parameters (a,b)=(i,n+1-i): a structured set of n <= 300 plus n in {1100,1500,2000} in every tier (exact throughout); thorough adds 40 random n, 500, 1000 and a random n in 1001..2000",
                 "highest-density variants exclude a=b=1; the inverse relation is not demanded at an end point pinned to a "
                 "boundary mode (a=1 lower end, b=1 upper end), where the clause '0 at the mode' applies instead"],
    timeout=dict(quick=600, thorough=7200),
)
TEXT = dict(
    level="Universal Lean theorems: the binomial tail polynomial is the Beta(a,b) distribution function (derivative telescopes to "
          "the normalised density; FTC); equal-tailed duality (mass, equal tails, x in I(c) <-> cov(x)<=c, cov(end)=c, "
          "nestedness); (strict) unimodality of the density; the highest-density coverage function hdcov(a,b)(x) := Beta(a,b)-mass of the "
          "level set of the density through x, for integers a,b >= 1 not both 1: the level set is [x, partner] with the partner the "
          "sup/inf of the level set across the mode (for a,b >= 2 the unique equal-density point), it is the shortest interval of its "
          "mass, and hdcov is strictly decreasing on [0,mode], strictly increasing on [mode,1], 0 at the mode, 1 at an end point where "
          "the density vanishes, G resp. 1-G for a=1 resp. b=1, measurable; the exact bracket of beta.hdcov contains hdcov(x) for every "
          "rational x off the mode; weak-duality level-set bound => soundness of the exact optimality "
          "certificate (no interval of at least the same mass is shorter by more than 1e-9, for EVERY u,v) and the classical "
          "'equal end densities => shortest'; bracket/width invariants of both bisection loops for arbitrary decisions. "
          "Every run checks the implementation's outputs exactly in Q: masses and tails to 1e-9, order, optimality "
          "certificates, coverage functions against exact values/brackets to 2e-6, inverse relation, monotonicity, broadcasting.",
    note="Proved: what an accepted exact check implies over the reals (all continuum quantifiers closed by theorems). Compared, "
         "not proved: the values returned by scipy's beta.ppf/cdf and by the library's float bisections (checked per instance); "
         "the coverage of the smallest HDI containing x is a defined real function (hdcov, OpdaProofs/BetaHdV.lean) with proved V shape; "
         "the exact bisection in the model provably brackets it (hd_coverage_bracket_contains_hdcov) and the library's float value is "
         "compared with that bracket. Finding on the unchanged tree: the HDI is not shortest within 1e-9 (by at most 1.5e-8) when min(a,b) = 2 and 1-coverage <= 1e-8.",
)
