#!/bin/sh
# Regression over every seeded change (4 at a time) after one setup; one summary line per change.
# ONLY=<regex> restricts the changes, SEEDS=0,1 the seeds.
# Meant for `vp run --timeout 8h -- sh tools/run_seeded_all.sh` (results are not evidence).
./setup.sh > setup.log 2>&1 || { echo "setup failed"; tail -20 setup.log; exit 2; }
mkdir -p seeded_logs
# C19's changes edit the translated data file: their checks regenerate lean/OpdaGen from the mutated repository, which every other
# check running in the same tree at that moment would pick up -- so they run afterwards, one at a time
ls seeded | grep -E "${ONLY:-.}" | grep -v "^C19-" | xargs -P 4 -I{} sh -c 'python3 tools/run_seeded.py seeded/{} --base HEAD --seeds ${SEEDS:-0} > seeded_logs/{}.json 2>&1; python3 - {} <<PY
import json,sys
s=sys.argv[1]
t=open("seeded_logs/%s.json"%s).read(); i=t.find("{")
if i<0: print(s,"NO-RESULT",t[-200:].replace("\n"," "))
else:
    d=json.loads(t[i:]); own=s.split("-")[0]
    print(s, "confirmed" if d["confirmed"] else "UNCONFIRMED(clean=%s changed=%s tests=%s)"%(d.get("demo_clean_rc"),d.get("demo_changed_rc"),d.get("tests")), "own-check:%s"%d["detected"].get(own), "every-seed:%s"%d.get("detected_at_every_seed",dict()).get(own), d["detected"])
PY'
ls seeded | grep -E "${ONLY:-.}" | grep "^C19-" | xargs -P 1 -I{} sh -c 'python3 tools/run_seeded.py seeded/{} --base HEAD --seeds ${SEEDS:-0} > seeded_logs/{}.json 2>&1; python3 - {} <<PY
import json,sys
s=sys.argv[1]
t=open("seeded_logs/%s.json"%s).read(); i=t.find("{")
if i<0: print(s,"NO-RESULT",t[-200:].replace("\n"," "))
else:
    d=json.loads(t[i:]); own=s.split("-")[0]
    print(s, "confirmed" if d["confirmed"] else "UNCONFIRMED(clean=%s changed=%s tests=%s)"%(d.get("demo_clean_rc"),d.get("demo_changed_rc"),d.get("tests")), "own-check:%s"%d["detected"].get(own), "every-seed:%s"%d.get("detected_at_every_seed",dict()).get(own), d["detected"])
PY'
echo; echo "== not detected by own check:"; grep -h "own-check:False\|NO-RESULT\|UNCONFIRMED" seeded_logs/*.summary 2>/dev/null
