#!/usr/bin/env python3
"""Write MANIFEST.json from harness/registry.py + tools/manifest_text.py (so it is always valid and current)."""
import json, os, sys
VERIF = os.path.dirname(os.path.dirname(os.path.abspath(__file__)))
sys.path.insert(0, os.path.join(VERIF, "harness"))
sys.path.insert(0, os.path.join(VERIF, "tools"))
import registry, manifest_text as T

all_ids = [json.loads(l)["id"] for l in open(os.path.join(VERIF, "properties.jsonl"))]
checks = []
for pid in all_ids:
    if pid not in registry.PROPS:
        continue
    t = registry.TEXT[pid]
    checks.append(dict(
        property_id=pid,
        quick_cmd=f"./check {pid} --tier quick",
        thorough_cmd=f"./check {pid} --tier thorough",
        evidence_file=f"evidence/{pid}.json",
        replay_cmd_template=f"./check {pid} --replay {{path}}",
        engine="lean4-proof+correspondence",
        level_claimed=dict(category="proof", text=t["level"], design_ref=t.get("design", f"DESIGN.md §3 {pid}")),
        level_note=t["note"],
        technique=t.get("technique", "Lean 4 refinement proof of a hand-written executable model + differential correspondence with the implementation"),
    ))
na = [dict(property_id=pid, reason=T.NOT_APPLICABLE.get(pid, T.NOT_YET))
      for pid in all_ids if pid not in registry.PROPS]
m = dict(
    version=1,
    setup_cmd="./setup.sh",
    hooks=dict(guard="OPDA_VERIF", enable="none needed: the harness imports /repo/src in-process and interposes from outside; no source hooks exist",
               baseline_off_cmd="cd /repo && /venv/bin/python -m pytest -ra -q -p no:cacheprovider --timeout=900 --continue-on-collection-errors",
               source_commits=T.HOOK_COMMITS, add_only=True),
    engines=[dict(name="lean4-proof+correspondence", path="check",
                  serves_properties=[c["property_id"] for c in checks],
                  kind_free_text="Lean 4 theorems about a hand-written executable model (lean/OpdaModel, lean/OpdaProofs/Props), "
                                 "a translator for the shipped JSON table (tools/translate_table.py, tools/make_cert.py), and a seeded "
                                 "differential correspondence between the compiled model driver and the Python implementation (harness/)")],
    checks=checks,
    notes=T.NOTES,
    not_applicable=na,
)
json.dump(m, open(os.path.join(VERIF, "MANIFEST.json"), "w"), indent=1)
print("MANIFEST.json:", len(checks), "checks,", len(na), "not claimed")
