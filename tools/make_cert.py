#!/usr/bin/env python3
"""Untrusted certificate generator for the shipped approximation table (C19).

For every piece of every entry of <repo>/src/opda/_approximations.json it proposes
  * the integer polynomial C(s) = 2^(deg·D+P) · g(s/2^D),  g(t) = p(t²) − t^(m2)  (x = t², exponent = m2/2),
  * an integer bound B ≤ 1.02·max_error·2^(deg·D+P),
  * a subdivision `cuts` of [⌊√klo·2^D⌋, ⌈√khi·2^D⌉] such that Σ_k |A_k| R^k ≤ B on each interval
    (A = Taylor shift of C to the interval's midpoint, R its half-width),
and writes one Lean file per piece whose only proof step is `decide +kernel` of `certOK` — the Lean checker
and its soundness theorem (`OpdaProofs/TableSpec.lean`) are what count, not this script.
If no certificate exists because the bound is really violated, the exact rational x is written to
OpdaGen/cert_failures.json (the replay) and no theorem is emitted for that piece, so the build of CertAll breaks.
Files are rewritten only when their content changes (lake is content-addressed).
"""
import glob
import json
import math
import os
import sys
from fractions import Fraction as Fr

D = 40
CHUNK = 6   # intervals per kernel evaluation (one long checkAll is superlinear in the kernel)


def isqrt_floor(fr, d):
    return math.isqrt((fr.numerator << (2 * d)) // fr.denominator)


def recenter(C, s0):
    C = list(C)
    n = len(C)
    for k in range(n):
        for j in range(n - 2, k - 1, -1):
            C[j] += s0 * C[j + 1]
    return C


def bound(A, R):
    tot, p = 0, 1
    for a in A:
        tot += abs(a) * p
        p *= R
    return tot


def evalp(C, s):
    acc = 0
    for c in reversed(C):
        acc = acc * s + c
    return acc


def write_if_changed(path, text):
    if os.path.exists(path) and open(path).read() == text:
        return False
    os.makedirs(os.path.dirname(path), exist_ok=True)
    open(path, "w").write(text)
    return True


def certify(m2, cs, lo, hi, B):
    """returns dict(deg,P,C,B,cuts) or dict(fail=x)"""
    # shape of `gOf cs m2` in the Lean model: `interleave` pads a trailing zero, so deg = max(2·len(cs) − 1, m2)
    deg = max(2 * len(cs) - 1, m2)
    g = [Fr(0)] * (deg + 1)
    for j, c in enumerate(cs):
        g[2 * j] += c
    g[m2] -= 1
    P = 0
    for c in g:
        if c != 0:
            P = max(P, c.denominator.bit_length() - 1)
    C = [int(c * (1 << ((deg - j) * D + P))) for j, c in enumerate(g)]
    for j, c in enumerate(g):
        assert Fr(C[j], 1 << ((deg - j) * D + P)) == c, "table value is not dyadic?"
    Bs = B * (1 << (deg * D + P))
    Bs = Bs.numerator // Bs.denominator
    sl = isqrt_floor(lo, D)
    sh = isqrt_floor(hi, D) + 1
    cuts, s = [sl], sl
    while s < sh:
        R = max(1, (sh - s + 1) // 2)
        while True:
            A = recenter(C, s + R)
            if bound(A, R) <= Bs:
                break
            if R == 1:
                # no certificate at the finest width: look for a true violation at an integer grid point
                for cand in (s, s + 1, s + 2):
                    x = Fr(cand, 1 << D) ** 2
                    if lo <= x <= hi and abs(evalp(C, cand)) > Bs:
                        return dict(fail=x, deg=deg)
                return dict(fail=None, deg=deg, near=Fr(s + 1, 1 << D) ** 2)
            R = max(1, R * 2 // 3)
        s += 2 * R
        cuts.append(s)
    return dict(deg=deg, P=P, C=C, B=Bs, cuts=cuts)


def main():
    repo = sys.argv[1] if len(sys.argv) > 1 else "/repo"
    out_dir = sys.argv[2] if len(sys.argv) > 2 else os.path.join(os.path.dirname(__file__), "../lean/OpdaGen")
    t = json.load(open(os.path.join(repo, "src/opda/_approximations.json")))
    cert_dir = os.path.join(out_dir, "Cert")
    os.makedirs(cert_dir, exist_ok=True)
    wanted, names, failures, n_iv, changed = set(), [], [], 0, 0
    for ri, (key, entries) in enumerate(t.items()):
        m2 = int(round(2 * float(key)))
        for ei, e in enumerate(entries):
            B = Fr(102, 100) * Fr(float(e["max_error"]))
            for pi, cs in enumerate(e["coefficients"]):
                tag = f"{ri}_{ei}_{pi}"
                try:
                    lo, hi = Fr(float(e["knots"][pi])), Fr(float(e["knots"][pi + 1]))
                    ok = 0 <= lo < hi and B > 0
                except (IndexError, TypeError, ValueError):
                    ok = False
                if not ok:
                    failures.append(dict(row=ri, exponent=key, entry=ei, piece=pi, reason="malformed knots or max_error"))
                    continue
                r = certify(m2, [Fr(float(c)) for c in cs], lo, hi, B)
                if "cuts" not in r:
                    x = r.get("fail")
                    failures.append(dict(row=ri, exponent=key, entry=ei, piece=pi,
                                         reason="bound violated" if x is not None else "no certificate found",
                                         x=None if x is None else f"{x.numerator}/{x.denominator}",
                                         x_float=None if x is None else float(x),
                                         near=None if r.get("near") is None else float(r["near"]),
                                         bound=float(B)))
                    continue
                n_iv += len(r["cuts"]) - 1
                cuts = r["cuts"]
                chunks = [cuts[k:k + CHUNK + 1] for k in range(0, len(cuts) - 1, CHUNK)]
                lines = [
                    "/- generated by tools/make_cert.py (untrusted proposer; the proof is the kernel's evaluation of headOK / chunkOK) -/",
                    "import OpdaProofs.TableCert", "namespace Opda.Gen.Cert", "open Opda.Table", "",
                    f"def C_{tag} : List Int := {r['C']}", ""]
                for k, ch in enumerate(chunks):
                    lines += [f"theorem range_{tag}_{k} : RangeBound C_{tag} ({r['B']}) ({ch[0]}) ({ch[-1]}) :=",
                              f"  rangeBound_of_chunk C_{tag} ({r['B']}) {ch} ({ch[0]}) ({ch[-1]}) (by decide +kernel)", ""]
                whole = f"range_{tag}_0"
                for k in range(1, len(chunks)):
                    whole = f"({whole}).append range_{tag}_{k}"
                lines += [
                    f"/-- row {ri} (exponent {key}), entry {ei}, piece {pi}: degree {r['deg']} in t, {len(cuts) - 1} intervals in {len(chunks)} chunks -/",
                    f"theorem piece_{tag} : PieceBound Opda.Gen.tableQ {ri} {ei} {pi} :=",
                    f"  pieceBound_of_range Opda.Gen.tableQ {ri} {ei} {pi} {D} {r['P']} C_{tag} ({r['B']}) ({cuts[0]}) ({cuts[-1]})",
                    f"    (by decide +kernel) ({whole})", "", "end Opda.Gen.Cert", ""]
                body = "\n".join(lines)
                path = os.path.join(cert_dir, f"P_{tag}.lean")
                changed += write_if_changed(path, body)
                wanted.add(os.path.abspath(path))
                names.append((ri, ei, pi, tag))
    for p in glob.glob(os.path.join(cert_dir, "P_*.lean")):
        if os.path.abspath(p) not in wanted:
            os.remove(p)
    triples = ", ".join(f"({ri}, {ei}, {pi})" for ri, ei, pi, _ in names)
    n_all = sum(len(e["coefficients"]) for es in t.values() for e in es)
    allf = ["/- generated by tools/make_cert.py -/"]
    allf += [f"import OpdaGen.Cert.P_{tag}" for *_x, tag in names]
    allf += ["import OpdaProofs.TableCert", "namespace Opda.Gen.Cert", "open Opda.Table", "",
             "/-- structure of the shipped table: knots 0→1 strictly increasing, one coefficient vector per piece,",
             "min_scale strictly decreasing and ending at exactly 0 -/",
             "theorem struct_ok : structOK Opda.Gen.tableQ = true := by decide +kernel", "",
             f"theorem all_pieces_eq : allPieces Opda.Gen.tableQ = [{triples}] := by decide +kernel", "",
             "/-- **every piece of every entry** satisfies the uniform 1.02·max_error bound on its whole knot interval -/",
             "theorem table_bound : ∀ t ∈ allPieces Opda.Gen.tableQ, PieceBound Opda.Gen.tableQ t.1 t.2.1 t.2.2 := by",
             "  rw [all_pieces_eq]", "  intro t ht",
             "  simp only [List.mem_cons, List.not_mem_nil, or_false] at ht"]
    if len(names) > 1:
        allf.append("  rcases ht with " + " | ".join(["rfl"] * len(names)))
    else:
        allf.append("  subst ht")
    allf += [f"  · exact piece_{tag}" for *_x, tag in names]
    allf += ["", "end Opda.Gen.Cert", ""]
    if len(names) == n_all and not failures:
        changed += write_if_changed(os.path.join(out_dir, "CertAll.lean"), "\n".join(allf))
    else:
        # some piece has no certificate: CertAll must not claim the whole table
        changed += write_if_changed(os.path.join(out_dir, "CertAll.lean"),
                                    "/- generated by tools/make_cert.py -/\nimport OpdaProofs.TableCert\n"
                                    "-- certificates are missing for some pieces (see cert_failures.json): "
                                    "no whole-table theorem can be stated\n"
                                    "#check (Opda.Gen.Cert.table_bound_missing_because_a_certificate_failed : True)\n")
    json.dump(dict(failures=failures, pieces=len(names), expected=n_all, intervals=n_iv),
              open(os.path.join(out_dir, "cert_failures.json"), "w"), indent=1)
    print(f"make_cert: {len(names)}/{n_all} pieces certified, {n_iv} intervals, {changed} files rewritten, "
          f"{len(failures)} failures")
    return 1 if failures else 0


if __name__ == "__main__":
    sys.exit(main())
