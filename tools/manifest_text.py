"""Texts of MANIFEST.json (kept apart from the machinery so they are edited deliberately)."""
HOOK_COMMITS = []
NOTES = ("Every check: regenerate OpdaGen from /repo, lake build + axiom audit of Opda.Props.<ID>, then the seeded correspondence "
         "between the compiled Lean model and /repo/src imported in-process. Exit 2 = infrastructure problem, never a violation. "
         "Fix commits in /repo and recorded findings are listed in known_findings.json.")
NOT_YET = ("not claimed yet: the model, theorems and correspondence for this property are still being assembled "
           "(DESIGN.md §5b order of construction); nothing about it is asserted")
NOT_APPLICABLE = {
    "C12": "statistical consistency of a stochastic global optimiser (scipy differential_evolution + polish) on random samples; "
           "an empirical envelope with a calibrated constant, not a theorem of any executable model short of scipy itself "
           "(DESIGN.md §3 C12). The provable ingredient (the objective is a KL estimator) is claimed under C10.",
}
TEXT = {
    "C03": dict(
        level="Universal Lean theorems (any sample with ties/zero weights/±inf, any bounds, any query; values in any linear order, "
              "weights in any ordered field): the model's cdf/pmf equal the normalised weight of observations <=y / =y and ppf "
              "satisfies the Galois law ppf q <= y <-> q <= cdf y; restated for the very terms the driver runs. The model is tied "
              "to the code on every run by exact-rational differential execution (cdf/pmf to the property's 1e-12, ppf exactly "
              "outside the excluded 1e-12 tie zone, moments, shapes).",
        note="Proved: Model = Spec in exact arithmetic. Compared, not proved: numpy float rounding (inside the 1e-12 of the property), "
             "np.unique/searchsorted/argmax semantics (mirrored by the model and exercised by the correspondence). NaN observations excluded."),
}
