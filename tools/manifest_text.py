"""Texts of MANIFEST.json (kept apart from the machinery so they are edited deliberately)."""
HOOK_COMMITS = []
NOTES = ("Every check: regenerate OpdaGen from /repo, lake build + axiom audit of Opda.Props.<ID>, then the seeded correspondence "
         "between the compiled Lean model and /repo/src imported in-process. Exit 2 = infrastructure problem, never a violation. "
         "Fix commits in /repo and recorded findings are listed in known_findings.json.")
NOT_YET = ("not claimed yet: the model, theorems and correspondence for this property are still being assembled "
           "(DESIGN.md §5b order of construction); nothing about it is asserted")
NOT_APPLICABLE = {
    "C12": "statistical consistency of a stochastic global optimiser (scipy differential_evolution + polish) on random samples; "
           "an empirical envelope with a calibrated constant, not a theorem of any executable model short of scipy itself "
           "(DESIGN.md §3 C12). The provable ingredient (the objective is a KL estimator) is claimed under C10.",
}
