#!/usr/bin/env python3
"""Union of the per-property results of tools/coverage_probe.py: which statements of the implementation are executed
by NO correspondence harness (a seeded change there can only be caught through a proof obligation, i.e. never for
hand-modelled code), grouped by function, with the source text.

  tools/coverage_union.py [evidence/coverage_probe.json]

coverage_probe lists, per property and file, only the functions with something missing; a function that is not listed
for a property whose run touched the file was executed completely by that property.
"""
import json
import os
import sys

REPO = os.environ.get("OPDA_REPO", "/repo")


def main():
    path = sys.argv[1] if len(sys.argv) > 1 else os.path.join(os.path.dirname(os.path.dirname(os.path.abspath(__file__))),
                                                               "coverage", "coverage_probe.json")
    rep = json.load(open(path))
    files = {}
    for prop, per_file in rep.items():
        for rel, s in per_file.items():
            if s["percent"] <= 0:
                continue
            files.setdefault(rel, {})[prop] = {fn: set(r["missing_lines"]) for fn, r in s["functions"].items()}
    total_missing = 0
    for rel in sorted(files):
        per_prop = files[rel]
        fns = set().union(*[set(d) for d in per_prop.values()])
        src = open(os.path.join(REPO, rel)).read().splitlines()
        rows = []
        for fn in fns:
            miss = None
            for prop, d in per_prop.items():
                cur = d.get(fn, set())
                miss = cur if miss is None else (miss & cur)
            if miss:
                rows.append((min(miss), fn, sorted(miss)))
        print(f"== {rel}: {sum(len(r[2]) for r in rows)} statements executed by no harness ({', '.join(sorted(per_prop))})")
        total_missing += sum(len(r[2]) for r in rows)
        for _, fn, miss in sorted(rows):
            print(f"  {fn}: {miss}")
            for ln in miss[:14]:
                print(f"      {ln}: {src[ln - 1].strip()[:120]}")
    print(f"total: {total_missing}")


if __name__ == "__main__":
    main()
