#!/usr/bin/env python3
"""Print markdown tables for DESIGN.md §8 from the evidence files, the property-theorem files and seeded/*/meta.json."""
import glob, json, os, re
V = os.path.dirname(os.path.dirname(os.path.abspath(__file__)))
print("| id | obligations (theorems in Opda.Props.<id>) | correspondence cases (quick, distinct) | quick wall s |")
print("|---|---|---|---|")
for p in sorted(glob.glob(os.path.join(V, "evidence", "C*.json"))):
    e = json.load(open(p))
    c = e["coverage"]
    print(f"| {e['property_id']} | {c['discharged']}/{c['obligations']} | {c['evaluations']} ({c['distinct_nontrivial']}) | {e['wall_s']} |")
print()
print("| seeded change | property | what it needs | demo fails / tests pass | detected by | first replay |")
print("|---|---|---|---|---|---|")
for d in sorted(glob.glob(os.path.join(V, "seeded", "*"))):
    mp = os.path.join(d, "meta.json")
    if not os.path.exists(mp):
        continue
    m = json.load(open(mp))
    runs = m.get("runs") or []
    if not runs:
        continue
    r = runs[-1]
    det = [c for c, rs in r["checks"].items() if any(x["detected"] for x in rs)]
    miss = [c for c, rs in r["checks"].items() if not any(x["detected"] for x in rs)]
    first = next((x.get("first_replay") for rs in r["checks"].values() for x in rs if x.get("first_replay")), None) or {}
    what = (first.get("what") or ("; ".join(first.get("broken") or []) ) or "")[:110]
    kind = first.get("kind", "")
    ok = r.get("demo_clean_rc") == 0 and r.get("demo_changed_rc", 0) != 0 and r.get("tests_rc") == 0
    esc = lambda t: " ".join(str(t).split()).replace("|", "/")      # noqa: E731  (table cells)
    note = " [neutralised by %s]" % m["neutralised_by"] if m.get("neutralised_by") else ""
    own = m.get("property")
    miss = [c for c in miss if c == own] if own in det else miss     # the change's own check is the claim; others are extra
    print(f"| {os.path.basename(d)} | {own} | {esc(m.get('needs',''))[:90]}{note} | {'yes' if ok else 'NO'} | "
          f"{', '.join(det) or '—'}{(' (missed by ' + ', '.join(miss) + ')') if miss else ''} | {kind}: {esc(what)} |")
