#!/bin/sh
# usage: run_all.sh <seed> <outdir>
S=$1; O=$2; mkdir -p $O; cd "$(dirname "$0")/.."
run1() { p=$1; s=$(date +%s); VERIF_SEED=$S ./check $p --tier quick > $O/$p.out 2> $O/$p.err; rc=$?; e=$(date +%s); echo "$p seed=$S rc=$rc wall=$((e-s))s viol=$(grep -c '^VIOLATION' $O/$p.out) known=$(grep -c '^KNOWN' $O/$p.out) :: $(tail -1 $O/$p.err | cut -c1-160)"; }
( for p in C17 C03 C05 C13 C19; do run1 $p; done ) &
( for p in C18 C02 C01 C04; do run1 $p; done ) &
( for p in C08 C09 C14 C16 C20; do run1 $p; done ) &
( for p in C06 C07 C10 C11 C15; do run1 $p; done ) &
wait
