#!/usr/bin/env python3
"""Run registered checks against the behaviour-preserving changes under benign/<k>/ (false-alarm regression).

  tools/run_benign.py [--only 1,5] [--checks C07,C08]

Each patch is applied to a scratch git worktree of /repo's HEAD (outside /repo and /verif); the checks run with OPDA_REPO
pointing at it; evidence files are saved before and restored after.  Prints, per change, which checks raised an alarm
(any is a false alarm unless it ends with no-failing-input-found, which the brief allows for a rewrite that breaks the
correspondence).  Results go to benign/results.json."""
import argparse, json, os, shutil, subprocess, sys, time
VERIF = os.path.dirname(os.path.dirname(os.path.abspath(__file__)))
ALL = "C01 C02 C03 C04 C05 C06 C07 C08 C09 C10 C11 C13 C14 C15 C16 C17 C18 C19 C20".split()


def sh(cmd, **kw):
    p = subprocess.run(cmd, stdout=subprocess.PIPE, stderr=subprocess.STDOUT, **kw)
    return p.returncode, p.stdout.decode(errors="replace")


def main():
    ap = argparse.ArgumentParser()
    ap.add_argument("--only", default=None)
    ap.add_argument("--checks", default=None)
    ap.add_argument("--jobs", type=int, default=8)
    a = ap.parse_args()
    ks = sorted(d for d in os.listdir(os.path.join(VERIF, "benign")) if os.path.isdir(os.path.join(VERIF, "benign", d)))
    if a.only:
        ks = [k for k in ks if k in a.only.split(",")]
    checks = a.checks.split(",") if a.checks else ALL
    bak = f"/tmp/evidence_bak_{os.getpid()}"
    shutil.copytree(os.path.join(VERIF, "evidence"), bak)
    results = {}
    try:
        for k in ks:
            tree = f"/tmp/benign_{k}_{os.getpid()}"
            rc, out = sh(["git", "-C", "/repo", "worktree", "add", "--detach", tree, "HEAD"])
            try:
                rc, out = sh(["git", "-C", tree, "apply", os.path.join(VERIF, "benign", k, "patch.diff")])
                if rc:
                    results[k] = dict(error="patch does not apply: " + out[-300:])
                    continue
                rct, outt = sh(["/venv/bin/python", "-m", "pytest", "-q", "-p", "no:cacheprovider", "--timeout=900", "tests"], cwd=tree,
                               env=dict(os.environ, PYTHONPATH=os.path.join(tree, "src"), PYTHONDONTWRITEBYTECODE="1"))
                procs, res = [], {}
                pending = list(checks)
                running = []
                while pending or running:
                    while pending and len(running) < a.jobs:
                        c = pending.pop(0)
                        running.append((c, subprocess.Popen([os.path.join(VERIF, "check"), c], cwd=VERIF, stdout=subprocess.PIPE, stderr=subprocess.STDOUT,
                                                            env=dict(os.environ, OPDA_REPO=tree))))
                    for c, p in list(running):
                        if p.poll() is not None:
                            out = p.stdout.read().decode(errors="replace")
                            res[c] = dict(rc=p.returncode, lines=[l for l in out.splitlines() if l.startswith("VIOLATION")][:3])
                            running.remove((c, p))
                    time.sleep(0.5)
                results[k] = dict(tests=outt.strip().splitlines()[-1] if outt.strip() else "", alarms={c: r for c, r in res.items() if r["rc"] != 0})
                print(k, results[k]["tests"], "alarms:", results[k]["alarms"] or "none", flush=True)
            finally:
                sh(["git", "-C", "/repo", "worktree", "remove", "--force", tree])
    finally:
        shutil.rmtree(os.path.join(VERIF, "evidence"))
        shutil.copytree(bak, os.path.join(VERIF, "evidence"))
        shutil.rmtree(bak)
    json.dump(dict(at=time.strftime("%Y-%m-%dT%H:%M:%S"), repo_head=sh(["git", "-C", "/repo", "rev-parse", "--short", "HEAD"])[1].strip(),
                   checks=checks, results=results), open(os.path.join(VERIF, "benign", "results.json"), "w"), indent=1)


if __name__ == "__main__":
    sys.exit(main())
