#!/usr/bin/env python3
"""Which lines of the implementation does each correspondence harness execute?

  tools/coverage_probe.py [C03 C04 …] [--tier quick] [--seed 0] [--out evidence/coverage_probe.json]

A seeded change on a line that no harness executes cannot be detected, so this is the cheapest measure of how tight the
model/code tie is.  Every harness of every registered property is run once under `coverage run --branch` (the /venv
interpreter has coverage.py), restricted to /repo/src; the report lists, per property, the executed share of each source
file and — per function of the files the property is anchored in — the lines and branch arcs that were never executed.
This is a diagnostic for the people extending the generators (DESIGN §8.10); it decides nothing and writes no evidence
file of a property.
"""
import argparse
import json
import os
import subprocess
import sys
import tempfile

VERIF = os.path.dirname(os.path.dirname(os.path.abspath(__file__)))
REPO = os.environ.get("OPDA_REPO", "/repo")
PY = os.environ.get("OPDA_PYTHON", "/venv/bin/python")
sys.path.insert(0, os.path.join(VERIF, "harness"))
import registry  # noqa: E402


def run_one(prop, tier, seed, tmp):
    cfg = registry.PROPS[prop]
    data = os.path.join(tmp, f"{prop}.cov")
    rc_file = os.path.join(tmp, f"{prop}.rc")
    with open(rc_file, "w") as f:
        f.write("[run]\nbranch = True\nparallel = True\nconcurrency = multiprocessing\n"
                f"data_file = {data}\nsource = {REPO}/src\n")
    env = dict(os.environ, PYTHONDONTWRITEBYTECODE="1", OPDA_REPO=REPO, OPDA_VERIF="1",
               PYTHONPATH=os.path.join(VERIF, "harness"), COVERAGE_PROCESS_START=rc_file)
    for h in cfg["harnesses"]:
        outp = os.path.join(tmp, f"{prop}.{h}.json")
        cmd = [PY, "-m", "coverage", "run", f"--rcfile={rc_file}", os.path.join(VERIF, "harness", h + ".py"),
               "--seed", str(seed), "--tier", tier, "--out", outp]
        p = subprocess.run(cmd, env=env, stdout=subprocess.PIPE, stderr=subprocess.STDOUT)
        if p.returncode:
            print(f"[coverage_probe] {prop}/{h} rc={p.returncode}: {p.stdout.decode(errors='replace')[-400:]}", file=sys.stderr)
    subprocess.run([PY, "-m", "coverage", "combine", f"--rcfile={rc_file}"], env=env, stdout=subprocess.DEVNULL,
                   stderr=subprocess.DEVNULL)
    js = os.path.join(tmp, f"{prop}.json")
    subprocess.run([PY, "-m", "coverage", "json", f"--rcfile={rc_file}", "-o", js, "--quiet"], env=env,
                   stdout=subprocess.DEVNULL, stderr=subprocess.DEVNULL)
    if not os.path.exists(js):
        return None
    return json.load(open(js))


def summarise(prop, cov):
    out = {}
    for path, f in cov["files"].items():
        rel = os.path.relpath(path, REPO)
        fn = {}
        for name, r in (f.get("functions") or {}).items():
            if not name:
                continue
            s = r["summary"]
            if s["num_statements"] and (r["missing_lines"] or r.get("missing_branches")):
                fn[name] = dict(executed=f"{s['covered_lines']}/{s['num_statements']}",
                                missing_lines=r["missing_lines"],
                                missing_branches=[list(b) for b in r.get("missing_branches", [])][:40])
        out[rel] = dict(percent=round(f["summary"]["percent_covered"], 1),
                        statements=f["summary"]["num_statements"], missing=len(f["missing_lines"]), functions=fn)
    return out


def main():
    ap = argparse.ArgumentParser()
    ap.add_argument("props", nargs="*")
    ap.add_argument("--tier", default="quick")
    ap.add_argument("--seed", type=int, default=0)
    ap.add_argument("--out", default=os.path.join(VERIF, "coverage", "coverage_probe.json"))
    a = ap.parse_args()
    props = a.props or sorted(registry.PROPS)
    report = {}
    with tempfile.TemporaryDirectory(prefix="opda_cov_") as tmp:
        for p in props:
            cov = run_one(p, a.tier, a.seed, tmp)
            if cov is None:
                print(f"[coverage_probe] {p}: no data", file=sys.stderr)
                continue
            report[p] = summarise(p, cov)
            for rel, s in report[p].items():
                if s["percent"] > 0 and s["statements"] > 20:
                    print(f"{p} {rel}: {s['percent']}% of {s['statements']} statements")
    if os.path.exists(a.out) and a.props:
        old = json.load(open(a.out))
        old.update(report)
        report = old
    with open(a.out, "w") as f:
        json.dump(report, f, indent=1)
    return 0


if __name__ == "__main__":
    sys.exit(main())
