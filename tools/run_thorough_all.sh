#!/bin/sh
# Run every thorough check (4 at a time) after one setup; prints one summary line per property.
# Meant for `vp run --timeout 8h --mem 40g -- sh tools/run_thorough_all.sh` (results are not evidence; re-run in /verif to commit).
./setup.sh > setup.log 2>&1 || { echo "setup failed"; tail -20 setup.log; exit 2; }
mkdir -p thorough_logs
run1() { p=$1; s=$(date +%s); ./check $p --tier thorough > thorough_logs/$p.out 2> thorough_logs/$p.err; rc=$?; e=$(date +%s); echo "$p rc=$rc wall=$((e-s))s $(grep -c VIOLATION thorough_logs/$p.out) violation-lines; $(tail -1 thorough_logs/$p.err)"; }
( for p in C17 C03 C05 C13 C19; do run1 $p; done ) &
( for p in C18 C02 C01 C04; do run1 $p; done ) &
( for p in C08 C09 C14 C16; do run1 $p; done ) &
( for p in C06 C07 C10 C11 C15 C20; do run1 $p; done ) &
wait
grep -h VIOLATION thorough_logs/*.out | head -40
