#!/bin/sh
# usage: import_seeded.sh <SRC> <PROP> <letter> "<source note>"
# Copies one change written by a seeding sub-agent (<SRC>/patch.diff, demo.py, README.md — e.g. /tmp/w9/C05/out/1) into
# seeded/<PROP>-<letter>/ with a meta.json skeleton (base = current /repo HEAD, needs = head of the README). One-off ingestion
# helper; not used by any registered command. Then: python3 tools/run_seeded.py seeded/<PROP>-<letter> --seeds 0,1
set -e
S=$1; P=$2; L=$3; NOTE=${4:-"fresh sub-agent given only the property text and a scratch worktree"}
V=$(cd "$(dirname "$0")/.." && pwd)
D=$V/seeded/$P-$L
[ -e "$D" ] && { echo "$D exists"; exit 1; }
mkdir -p "$D"
cp "$S/patch.diff" "$S/demo.py" "$S/README.md" "$D/"
python3 - "$P" "$NOTE" "$D" <<'PY'
import json,sys,subprocess
p,note,d=sys.argv[1:4]
base=subprocess.run(["git","-C","/repo","rev-parse","--short","HEAD"],capture_output=True,text=True).stdout.strip()
needs=" ".join(open(d+"/README.md").read(300).split())
json.dump(dict(property=p,checks=[p],source=note,needs=needs,base=base),open(d+"/meta.json","w"),indent=1)
PY
echo imported "$D"
