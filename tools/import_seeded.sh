#!/bin/sh
# import_seeded.sh <PID> : copy /tmp/mut/out/<PID>/{a,b} into seeded/<PID>-a, seeded/<PID>-b with a meta.json skeleton
set -e
P=$1
for k in a b c d e f; do
  src=/tmp/mut/out/$P/$k
  [ -f $src/patch.diff ] || continue
  dst=/verif/seeded/$P-$k
  mkdir -p $dst
  cp $src/patch.diff $src/demo.py $dst/
  [ -f $src/README.md ] && cp $src/README.md $dst/README.md
  [ -f $dst/meta.json ] || python3 - "$P" "$dst" <<'PY'
import json,sys
json.dump(dict(property=sys.argv[1], checks=[sys.argv[1]], source="fresh sub-agent given only the property text and a scratch worktree",
               needs="see README.md", runs=[]), open(sys.argv[2]+"/meta.json","w"), indent=1)
PY
done
