#!/bin/sh
# seed_in.sh <PID> [checks] : import /tmp/mut/out/<PID>/* into seeded/, run the registered check(s) against each, print a summary,
# remove the scratch worktrees
P=$1; CH=${2:-$1}
cd /verif
sh tools/import_seeded.sh $P
for k in a b c d e f; do
  [ -d /tmp/mut/out/$P/$k ] || continue
  python3 tools/run_seeded.py seeded/$P-$k --checks $CH 2>&1 | python3 -c "
import sys,json
t=sys.stdin.read()
try:
    i=t.index('{\n \"seeded\"'); d=json.loads(t[i:]); print(d['seeded'], 'confirmed' if d['confirmed'] else 'NOT-CONFIRMED', d['detected'], [(c, (r or {}).get('kind'), ((r or {}).get('what') or '')[:110]) for c,r in d['first']])
except Exception as e: print('ERR', t[-600:])"
  git -C /repo worktree remove --force /tmp/mut/wt/$P-$k 2>/dev/null
done
rm -rf /tmp/mut/out/$P
