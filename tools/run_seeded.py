#!/usr/bin/env python3
"""Run registered checks against a seeded change (a patch that breaks a property while the test suite passes).

  tools/run_seeded.py seeded/<id> [--checks C03,C02] [--tier quick] [--in-repo]

Default: the patch is applied to a scratch git worktree of /repo (outside /repo and /verif) and the checks run with
OPDA_REPO pointing at it, so that concurrent work on /repo is not disturbed.  With --in-repo the patch is applied to /repo
itself (git -C /repo apply) and undone straight afterwards (git -C /repo checkout -- .).
Confirms first that the demonstration passes on the clean tree and fails with the change, and that the repository's test
suite still passes with it.  Evidence files are saved before and restored after, so that committed evidence always comes
from the unchanged tree.  Results are appended to seeded/<id>/meta.json under "runs".
"""
import argparse
import json
import os
import shutil
import subprocess
import sys
import time

VERIF = os.path.dirname(os.path.dirname(os.path.abspath(__file__)))


def sh(cmd, **kw):
    p = subprocess.run(cmd, stdout=subprocess.PIPE, stderr=subprocess.STDOUT, **kw)
    return p.returncode, p.stdout.decode(errors="replace")


def main():
    ap = argparse.ArgumentParser()
    ap.add_argument("dir")
    ap.add_argument("--checks", default=None)
    ap.add_argument("--tier", default="quick")
    ap.add_argument("--in-repo", action="store_true")
    ap.add_argument("--seeds", default="0")
    ap.add_argument("--base", default=None, help="commit of /repo the patch was written against (default: meta['base'] or HEAD)")
    a = ap.parse_args()
    d = os.path.abspath(a.dir)
    meta_p = os.path.join(d, "meta.json")
    meta = json.load(open(meta_p)) if os.path.exists(meta_p) else {}
    checks = (a.checks.split(",") if a.checks else meta.get("checks") or [meta["property"]])
    patch = os.path.join(d, "patch.diff")
    demo = os.path.join(d, "demo.py")
    if a.in_repo:
        tree = "/repo"
        rc, out = sh(["git", "-C", "/repo", "status", "--porcelain"])
        if out.strip():
            print("refusing: /repo has uncommitted changes", file=sys.stderr)
            return 2
    else:
        tree = f"/tmp/seed_{os.path.basename(d)}_{os.getpid()}"
        rc, out = sh(["git", "-C", "/repo", "worktree", "add", "--detach", tree, a.base or meta.get("base") or "HEAD"])
        if rc:
            print(out)
            return 2
    env = dict(os.environ, PYTHONPATH=os.path.join(tree, "src"), PYTHONDONTWRITEBYTECODE="1")
    result = dict(at=time.strftime("%Y-%m-%dT%H:%M:%S"), repo_head=sh(["git", "-C", tree, "rev-parse", "--short", "HEAD"])[1].strip(),
                  tier=a.tier, mode="in-repo" if a.in_repo else "worktree", checks={})
    try:
        rc0, out0 = sh(["/venv/bin/python", demo], env=env, cwd=d)
        result["demo_clean_rc"] = rc0
        rc, out = sh(["git", "-C", tree, "apply", patch])
        if rc:
            result["apply_failed"] = out[-500:]
            print("patch does not apply:", out)
            return 2
        rc1, out1 = sh(["/venv/bin/python", demo], env=env, cwd=d)
        result["demo_changed_rc"] = rc1
        result["demo_changed_tail"] = out1[-400:]
        rct, outt = sh(["/venv/bin/python", "-m", "pytest", "-q", "-p", "no:cacheprovider", "--timeout=900", "tests"], env=env, cwd=tree)
        result["tests_rc"] = rct
        result["tests_tail"] = outt.strip().splitlines()[-1] if outt.strip() else ""
        for c in checks:
            ev = os.path.join(VERIF, "evidence", f"{c}.json")
            bak = ev + ".bak"
            if os.path.exists(ev):
                shutil.copy(ev, bak)
            runs = []
            for s in a.seeds.split(","):
                t0 = time.time()
                rc, out = sh([os.path.join(VERIF, "check"), c, "--tier", a.tier], cwd=VERIF,
                             env=dict(os.environ, OPDA_REPO=tree, VERIF_SEED=s))
                lines = [ln for ln in out.splitlines() if ln.startswith(("VIOLATION", "KNOWN-FINDING"))]
                replay = None
                for ln in lines:
                    if ln.startswith("VIOLATION") and "replay=" in ln:
                        rp = ln.split("replay=")[1].split()[0]
                        try:
                            replay = json.load(open(rp))
                            v = replay.get("violation") or {}
                            replay = dict(kind=replay.get("kind"), what=v.get("what"), call=v.get("call"),
                                          broken=[b.get("what") for b in replay.get("broken", [])][:3])
                        except Exception:
                            pass
                        break
                runs.append(dict(seed=int(s), rc=rc, detected=(rc == 1), violation_lines=len([l for l in lines if l.startswith("VIOLATION")]),
                                 no_failing_input=any("no-failing-input-found" in l for l in lines), first_replay=replay,
                                 wall_s=round(time.time() - t0, 1), tail=out.strip().splitlines()[-1][:300] if out.strip() else ""))
            result["checks"][c] = runs
            if os.path.exists(bak):
                shutil.move(bak, ev)
    finally:
        if a.in_repo:
            sh(["git", "-C", "/repo", "checkout", "--", "."])
        else:
            sh(["git", "-C", "/repo", "worktree", "remove", "--force", tree])
    meta.setdefault("runs", []).append(result)
    json.dump(meta, open(meta_p, "w"), indent=1)
    ok = result.get("demo_clean_rc") == 0 and result.get("demo_changed_rc", 0) != 0 and result.get("tests_rc") == 0
    det = {c: any(r["detected"] for r in rs) for c, rs in result["checks"].items()}
    det_all = {c: all(r["detected"] for r in rs) for c, rs in result["checks"].items()}
    print(json.dumps(dict(seeded=os.path.basename(d), confirmed=ok, demo_clean_rc=result.get("demo_clean_rc"),
                          demo_changed_rc=result.get("demo_changed_rc"), tests=result.get("tests_tail"), detected=det, detected_at_every_seed=det_all,
                          first=[(c, rs[0].get("first_replay")) for c, rs in result["checks"].items()]), indent=1))
    return 0


if __name__ == "__main__":
    sys.exit(main())
